#!/bin/bash
# confirm_seeded.sh <seeded-dir> [demo-package-dir]
# Confirms a seeded change in a scratch git worktree of /repo (never /repo itself):
#  suite with change passes; demo with change fails; demo without change passes.
# Writes <seeded-dir>/confirm.log and prints one summary line.
set -u
D=$(readlink -f "$1"); PKG="${2:-trie}"
export GOFLAGS=-mod=mod GOPROXY=off GOSUMDB=off GOTOOLCHAIN=local
W=$(mktemp -d /tmp/confirm.XXXXXX); rmdir "$W"
git -C /repo worktree add --detach "$W" >/dev/null 2>&1 || { echo "worktree failed"; exit 2; }
trap 'git -C /repo worktree remove --force "$W" >/dev/null 2>&1; rm -rf "$W"' EXIT
LOG="$D/confirm.log"; : > "$LOG"
DEMO=$(ls "$D"/*_test.go 2>/dev/null | head -1)
cd "$W"
# demo on the clean tree
cp "$DEMO" "$W/$PKG/"
go test -vet=off -count=1 -timeout 20m -run "$(grep -o 'func Test[A-Za-z0-9_]*' "$DEMO" | sed 's/func //' | paste -sd'|')" ./$PKG >> "$LOG" 2>&1; CLEAN=$?
rm "$W/$PKG/$(basename "$DEMO")"
git apply "$D/patch.diff" >> "$LOG" 2>&1 || { echo "$(basename $D): PATCH DOES NOT APPLY"; exit 1; }
go build ./... >> "$LOG" 2>&1; BUILD=$?
go test -vet=off -count=1 -timeout 25m ./... >> "$LOG" 2>&1; SUITE=$?
cp "$DEMO" "$W/$PKG/"
go test -vet=off -count=1 -timeout 20m -run "$(grep -o 'func Test[A-Za-z0-9_]*' "$DEMO" | sed 's/func //' | paste -sd'|')" ./$PKG >> "$LOG" 2>&1; WITH=$?
echo "$(basename $D): build=$BUILD suite_with_change=$SUITE(0=pass) demo_with_change=$WITH(nonzero=fails as required) demo_clean=$CLEAN(0=pass)" | tee -a "$LOG"
