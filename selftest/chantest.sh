#!/bin/bash
# chantest.sh: the instrumenter's rewriting of go statements, channels, select,
# WaitGroup and Cond (DESIGN 12.20) on a zoo of constructs (selftest/chantest/prog):
# the instrumented program must compile and print the same results as the plain
# one, with the simulator off and under a minimal baton scheduler (10 repetitions).
set -u
HERE="$(cd "$(dirname "$0")" && pwd)"; VERIF="$HERE/.."
export GOFLAGS=-mod=mod GOPROXY=off GOSUMDB=off GOTOOLCHAIN=local
T=$(mktemp -d /var/tmp/chantest.XXXXXX); trap 'rm -rf "$T"' EXIT
cp -r "$HERE/chantest/." "$T/"
(cd "$T" && go run ./cmd > "$T/plain.txt") || { echo "plain build failed"; exit 2; }
mkdir -p "$T/xsimrt" && cp "$VERIF/sim/simrt/rt.go" "$T/xsimrt/rt.go"
INSTR="$VERIF/.bin/instrument"
[ -x "$INSTR" ] || (cd "$VERIF/sim/instrument" && go build -o "$INSTR" .) || exit 2
(cd "$T" && "$INSTR" "$T" chantest/xsimrt ./prog > "$T/instrument.json") || { echo "instrumentation failed"; exit 2; }
python3 -c "import json,sys; d=json.load(open('$T/instrument.json')); print({k:d[k] for k in d if 'rewritten' in k or k=='unsupported_constructs'})"
(cd "$T" && go build -tags simsched -o "$T/sim.bin" ./cmd) || { echo "INSTRUMENTED PROGRAM DOES NOT COMPILE"; exit 1; }
BAD=0
"$T/sim.bin" > "$T/off.txt" 2>&1 || BAD=1
cmp -s "$T/plain.txt" "$T/off.txt" || { echo "DIFFERENT with the simulator off:"; diff "$T/plain.txt" "$T/off.txt"; BAD=1; }
for i in 1 2 3 4 5 6 7 8 9 10; do
  SIM=1 timeout 60 "$T/sim.bin" > "$T/on.txt" 2>&1 || { echo "run $i under the scheduler failed (exit $?)"; tail -5 "$T/on.txt"; BAD=1; break; }
  cmp -s "$T/plain.txt" "$T/on.txt" || { echo "DIFFERENT under the scheduler (run $i):"; diff "$T/plain.txt" "$T/on.txt"; BAD=1; break; }
done
cat "$T/plain.txt"
[ $BAD -eq 0 ] && echo "CHANTEST OK" || { echo "CHANTEST FAILED"; exit 1; }
