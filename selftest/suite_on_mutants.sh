#!/bin/bash
# suite_on_mutants.sh [dir]  — runs the pinned test suite on every patch of the catalogue (scratch copies), 3 at a time.
# Writes selftest/results/suite-<catalogue>.txt : "<name> PASS|FAIL(n)"
HERE="$(cd "$(dirname "$0")" && pwd)"; DIR="${1:-$HERE/mutants}"
export GOFLAGS=-mod=mod GOPROXY=off GOSUMDB=off GOTOOLCHAIN=local
mkdir -p "$HERE/results"; OUT="$HERE/results/suite-$(basename $DIR).txt"; : > "$OUT"
one() { P="$1"; N=$(basename "$P" .diff); M=$(mktemp -d /var/tmp/slimmut.XXXXXX); rsync -a --exclude='/.git' /repo/ "$M/repo/"
  if (cd "$M/repo" && patch -p1 -s < "$P" && go build ./... && go test -vet=off -count=1 -timeout 40m ./... > "$M/test.log" 2>&1); then echo "$N PASS" >> "$OUT"; else echo "$N FAIL($(grep -c -- '^--- FAIL\|^FAIL' "$M/test.log"))" >> "$OUT"; fi; rm -rf "$M"; }
export -f one; export OUT
ls "$DIR"/*.diff | xargs -P 3 -I{} bash -c 'one {}'
sort -o "$OUT" "$OUT"; cat "$OUT"
