#!/bin/bash
# run_mutants.sh [-t] [-s "1 2 3"] [-d dir] [glob]   sensitivity self-test.
# For every patch in selftest/mutants (or -d dir) matching glob: apply it to a
# scratch copy of /repo, (with -t) build and run the pinned test suite there, then
# run the quick check of the property named by the patch's prefix for each seed.
# Expected: tests PASS (the suite cannot see the change) and the check exits 1.
# With -d selftest/benign the expectation is reversed: the check must exit 0.
set -u
HERE="$(cd "$(dirname "$0")" && pwd)"
TESTS=0; SEEDS="1"; DIR="$HERE/mutants"; TIER=quick
while getopts "ts:d:T:" o; do case $o in t) TESTS=1;; s) SEEDS="$OPTARG";; d) DIR="$OPTARG";; T) TIER="$OPTARG";; esac; done
shift $((OPTIND-1))
GLOB="${1:-*}"
export GOFLAGS=-mod=mod GOPROXY=off GOSUMDB=off GOTOOLCHAIN=local
for P in "$DIR"/$GLOB.diff; do
  [ -f "$P" ] || continue
  NAME=$(basename "$P" .diff); PROP=${NAME%%-*}
  LINE="$NAME:"
  if [ $TESTS -eq 1 ]; then
    M=$(mktemp -d /var/tmp/slimmut.XXXXXX)
    rsync -a --exclude='/.git' /repo/ "$M/repo/"
    if (cd "$M/repo" && patch -p1 -s < "$P" && go build ./... && go vet ./trie >/dev/null 2>&1; go test -vet=off -count=1 -timeout 25m ./... > "$M/test.log" 2>&1); then
      LINE="$LINE tests=PASS"
    else
      LINE="$LINE tests=FAIL($(grep -c -- '--- FAIL' "$M/test.log"))"
    fi
    rm -rf "$M"
  fi
  for SEED in $SEEDS; do
    OUT=$(VERIF_SEED=$SEED "$HERE/with_patch.sh" "$P" "$HERE/../check" "$PROP" "$TIER" 2>&1); rc=$?
    ORACLES=$(echo "$OUT" | grep -o 'oracle=[a-z-]*' | sort | uniq -c | sort -rn | head -3 | awk '{printf "%s(%s) ", $2, $1}')
    LINE="$LINE seed$SEED=exit$rc [$ORACLES]"
  done
  echo "$LINE"
done
