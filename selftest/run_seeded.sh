#!/bin/bash
# run_seeded.sh [-s "seeds"] [glob]  — runs ./check <prop> quick against every seeded change (scratch copies of /repo).
# Prints: <id> seed<k>=exit<rc> [oracles...]; expected exit 1 everywhere.
HERE="$(cd "$(dirname "$0")" && pwd)"; SEEDS="1"
while getopts "s:" o; do case $o in s) SEEDS="$OPTARG";; esac; done; shift $((OPTIND-1))
GLOB="${1:-*}"
for D in "$HERE"/../seeded/$GLOB/; do
  ID=$(basename "$D"); PROP=${ID%%-*}; LINE="$ID:"
  for SEED in $SEEDS; do
    OUT=$(VERIF_SEED=$SEED "$HERE/with_patch.sh" "$D/patch.diff" "$HERE/../check" "$PROP" quick 2>&1); rc=$?
    ORACLES=$(echo "$OUT" | grep -o 'oracle=[a-z-]*' | sort | uniq -c | sort -rn | head -4 | awk '{printf "%s(%s) ", $2, $1}')
    LINE="$LINE seed$SEED=exit$rc [$ORACLES]"
  done
  echo "$LINE"
done
