#!/bin/bash
# with_patch.sh <patch.diff> <command...>
# Runs <command> with VERIF_REPO pointing at a scratch copy of /repo that has
# <patch.diff> applied. /repo itself is never touched. Evidence and replay files
# go to a scratch directory as well.
set -u
PATCH=$(readlink -f "$1"); shift
M=$(mktemp -d /var/tmp/slimmut.XXXXXX) || exit 2
trap 'rm -rf "$M"' EXIT
rsync -a --exclude='/.git' /repo/ "$M/repo/" || exit 2
(cd "$M/repo" && patch -p1 -s < "$PATCH") || { echo "patch does not apply: $PATCH" >&2; exit 2; }
mkdir -p "$M/evidence" "$M/replays"
VERIF_REPO="$M/repo" VERIF_EVIDENCE_DIR="${VERIF_EVIDENCE_DIR:-$M/evidence}" VERIF_REPLAY_DIR="${VERIF_REPLAY_DIR:-$M/replays}" "$@"
rc=$?
if [ -n "${KEEP_REPLAYS:-}" ]; then mkdir -p "$KEEP_REPLAYS"; cp "$M"/replays/* "$KEEP_REPLAYS"/ 2>/dev/null; fi
exit $rc
