#!/bin/bash
# run_benign_props.sh "<props>" [seed] [dirs...]: the named checks (quick) against every patch of the catalogues of
# property-preserving changes (default: all four catalogues; *-bug-* patches of goroutines/ are skipped).
# Expected: exit 0 everywhere.
HERE="$(cd "$(dirname "$0")" && pwd)"; PROPS="${1:-C05 C07 C11 C20}"; SEED="${2:-1}"; shift 2 2>/dev/null
DIRS="${*:-benign benign-agent benign-agent2 benign-agent3 goroutines}"
for D in $DIRS; do for P in "$HERE/$D"/*.diff; do
  [ -f "$P" ] || continue
  case "$P" in *-bug-*) continue;; esac
  LINE="$D/$(basename "$P" .diff):"
  for PROP in $PROPS; do
    OUT=$(VERIF_SEED=$SEED "$HERE/with_patch.sh" "$P" "$HERE/../check" "$PROP" quick 2>&1); rc=$?
    LINE="$LINE $PROP=exit$rc"
    if [ $rc -ne 0 ]; then LINE="$LINE[$(echo "$OUT" | grep -o 'oracle=[a-z-]*' | sort | uniq -c | sort -rn | head -2 | awk '{printf "%s(%s) ", $2, $1}')$(echo "$OUT" | grep -m1 'prepare:\|WATCHDOG\|merge:' | cut -c1-80)]"; fi
  done
  echo "$LINE"
done; done
