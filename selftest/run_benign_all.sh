#!/bin/bash
# run_benign_all.sh [dir] [seed]: EVERY check (quick) against every patch of a catalogue of property-preserving changes.
# Expected: exit 0 everywhere. Any exit 1 is a false alarm; exit 2 is machinery trouble. Both must be investigated.
HERE="$(cd "$(dirname "$0")" && pwd)"; DIR="${1:-$HERE/benign-agent}"; SEED="${2:-1}"
for P in "$DIR"/*.diff; do
  LINE="$(basename "$P" .diff):"
  for PROP in C05 C07 C11 C20; do
    OUT=$(VERIF_SEED=$SEED "$HERE/with_patch.sh" "$P" "$HERE/../check" "$PROP" quick 2>&1); rc=$?
    LINE="$LINE $PROP=exit$rc"
    if [ $rc -ne 0 ]; then LINE="$LINE[$(echo "$OUT" | grep -o 'oracle=[a-z-]*' | sort | uniq -c | sort -rn | head -2 | awk '{printf "%s(%s) ", $2, $1}')$(echo "$OUT" | grep -m1 'prepare:\|WATCHDOG\|merge:' | cut -c1-80)]"; fi
  done
  echo "$LINE"
done
