module chantest

go 1.18
