// Package prog is a zoo of goroutine / channel / select / WaitGroup / Cond
// constructs with deterministic results. selftest/chantest.sh instruments it
// and compares the results of the plain build, the instrumented build with the
// simulator off, and the instrumented build under a minimal scheduler.
package prog

import (
	"fmt"
	"runtime"
	"sort"
	"sync"
	"time"
)

type pool struct {
	sync.WaitGroup
	mu   sync.Mutex
	jobs chan int
	out  []int
}

func (p *pool) worker(id int, scale int) {
	defer p.Done()
	for j := range p.jobs {
		p.mu.Lock()
		p.out = append(p.out, j*scale)
		p.mu.Unlock()
	}
}

// WorkerPool: embedded WaitGroup, method value in go, range over channel, close.
func WorkerPool(n int) string {
	p := &pool{jobs: make(chan int, 3)}
	for i := 0; i < 3; i++ {
		p.Add(1)
		go p.worker(i, 10)
	}
	for i := 0; i < n; i++ {
		p.jobs <- i
	}
	close(p.jobs)
	p.Wait()
	sort.Ints(p.out)
	return fmt.Sprint(p.out)
}

// Pipeline: unbuffered rendezvous, receive in expressions, comma-ok receive.
func Pipeline(n int) string {
	src := make(chan int)
	sq := make(chan int)
	go func() {
		for i := 1; i <= n; i++ {
			src <- i
		}
		close(src)
	}()
	go func(in <-chan int, out chan<- int) {
		for {
			v, ok := <-in
			if !ok {
				close(out)
				return
			}
			out <- v * v
		}
	}(src, sq)
	sum := 0
	first := <-sq + 100
	for v := range sq {
		sum += v
	}
	if v, ok := <-sq; !ok {
		sum += v // zero
	}
	return fmt.Sprint(first, sum)
}

// Selects: labelled select with break, select in a loop with continue, default
// clause, send case, nil channel, constants sent, len and cap.
func Selects() string {
	a := make(chan int, 1)
	b := make(chan string, 1)
	var never chan int
	done := make(chan struct{})
	res := []string{}
	a <- 1
	res = append(res, fmt.Sprint(len(a), cap(a)))
	go func() {
		b <- "hello"
		close(done)
	}()
	got := 0
loop:
	for {
		select {
		case v := <-a:
			res = append(res, fmt.Sprint("a", v))
			got++
			continue
		case s, ok := <-b:
			res = append(res, fmt.Sprint("b", s, ok))
			got++
		case <-never:
			res = append(res, "never")
		case <-done:
			if got >= 2 {
				break loop
			}
			done = nil
		}
		if got >= 2 && done == nil {
			break
		}
	}
	c := make(chan int64, 2)
sel:
	select {
	case c <- 7:
		if len(c) == 1 {
			break sel
		}
		res = append(res, "unreachable")
	default:
		res = append(res, "default")
	}
	select {
	case x := <-c:
		res = append(res, fmt.Sprint("c", x))
	default:
		res = append(res, "empty")
	}
	select {
	case x := <-c:
		res = append(res, fmt.Sprint("c", x))
	default:
		res = append(res, "empty")
	}
	sort.Strings(res[1:3])
	return fmt.Sprint(res)
}

type gate struct {
	mu    sync.Mutex
	cond  *sync.Cond
	ready int
}

// CondVar: Wait in a loop, Signal and Broadcast.
func CondVar(n int) string {
	g := &gate{}
	g.cond = sync.NewCond(&g.mu)
	var wg sync.WaitGroup
	total := 0
	for i := 0; i < n; i++ {
		wg.Add(1)
		go func(i int) {
			defer wg.Done()
			g.mu.Lock()
			for g.ready == 0 {
				g.cond.Wait()
			}
			total += i * g.ready
			g.mu.Unlock()
		}(i)
	}
	g.mu.Lock()
	g.ready = 3
	g.cond.Signal()
	g.cond.Broadcast()
	g.mu.Unlock()
	wg.Wait()
	return fmt.Sprint(total)
}

type reply struct {
	n   int
	err error
}

func compute(x int, variadic ...int) int {
	s := x
	for _, v := range variadic {
		s += v
	}
	return s
}

// Misc: go with variadic and hoisted arguments, function variables, channel of
// channels (request carrying its reply channel), once, error values.
func Misc() string {
	reqs := make(chan chan reply)
	var once sync.Once
	inits := 0
	server := func(k int) {
		for rc := range reqs {
			once.Do(func() { inits++ })
			rc <- reply{n: k, err: nil}
		}
	}
	go server(5)
	x := 1
	extra := []int{2, 3}
	out := make(chan int, 1)
	go func(v int, more ...int) { out <- compute(v, more...) }(x, extra...)
	x = 100 // must not be seen by the goroutine above
	rc := make(chan reply)
	reqs <- rc
	r := <-rc
	reqs <- rc
	r2 := <-rc
	close(reqs)
	var f func(chan<- int) = func(c chan<- int) { c <- 9 }
	c2 := make(chan int)
	go f(c2)
	return fmt.Sprint(r.n+r2.n, r.err, <-out, inits, <-c2)
}

type level int64

type holder struct {
	*sync.WaitGroup
	ch chan level
}

func mk(v int) chan int {
	c := make(chan int, 1)
	c <- v
	return c
}

func helper(wg *sync.WaitGroup, out chan<- level, v level) {
	defer wg.Done()
	out <- v
}

// More: named element types, untyped constants in send cases, calls as send
// values, receive from a call result, deferred close, pointer-embedded
// WaitGroup, go on a method value of a sync type, switch on a received value,
// nested select.
func More() string {
	h := holder{WaitGroup: &sync.WaitGroup{}, ch: make(chan level, 4)}
	h.Add(2)
	go helper(h.WaitGroup, h.ch, 4)
	go helper(h.WaitGroup, h.ch, 5)
	waited := make(chan struct{})
	go func() {
		defer close(waited)
		h.Wait()
	}()
	<-waited
	sum := <-h.ch + <-h.ch
	var closedOff chan level
	select {
	case h.ch <- 1 << 3:
	case closedOff <- level(compute(1, 2)):
	}
	var inner string
	select {
	case v := <-h.ch:
		select {
		case w := <-mk(int(v)):
			inner = fmt.Sprint("inner", w)
		default:
			inner = "none"
		}
	}
	kind := ""
	switch v := <-mk(2); v {
	case 2:
		kind = "two"
	default:
		kind = "other"
	}
	var wg sync.WaitGroup
	wg.Add(1)
	fin := make(chan bool, 1)
	go func() { wg.Wait(); fin <- true }()
	wg.Done()
	return fmt.Sprint(sum, inner, kind, <-fin, len(h.ch))
}

// Polling: a flag polled with time.Sleep / runtime.Gosched while another
// goroutine sets it under a mutex.
func Polling() string {
	var mu sync.Mutex
	ready := 0
	go func() {
		runtime.Gosched()
		mu.Lock()
		ready = 7
		mu.Unlock()
	}()
	n := 0
	for {
		mu.Lock()
		r := ready
		mu.Unlock()
		if r != 0 {
			break
		}
		n++
		if n%2 == 0 {
			time.Sleep(100 * time.Microsecond)
		} else {
			runtime.Gosched()
		}
	}
	return fmt.Sprint(ready)
}

// Terminating: a select whose clauses all return is a terminating statement.
func Terminating() (string, error) {
	ok := make(chan string, 1)
	bad := make(chan error, 1)
	go func() { ok <- "fine" }()
	select {
	case s := <-ok:
		return s, nil
	case err := <-bad:
		return "", err
	}
}
