//go:build simsched

package main

import (
	"os"
	"runtime"
	"sync"

	xsimrt "chantest/xsimrt"
)

// A minimal owner of the baton: one big lock. Only its holder runs; blocking in
// the emulated primitives means giving the lock to somebody else for a moment.
var baton sync.Mutex

func setup() {
	pend := xsimrt.Pending
	xsimrt.Pending, xsimrt.PreMain = nil, false
	if os.Getenv("SIM") != "1" {
		for _, b := range pend {
			go b()
		}
		return
	}
	baton.Lock()
	xsimrt.ForceSwitch = func() {
		baton.Unlock()
		runtime.Gosched()
		baton.Lock()
	}
	n := 0
	xsimrt.Choice = func(k int) int { n++; return n % k }
	xsimrt.GoHook = func(body func()) {
		go func() {
			baton.Lock()
			defer baton.Unlock()
			body()
		}()
	}
	for _, b := range pend {
		xsimrt.GoHook(b)
	}
}
