package main

import (
	"fmt"

	"chantest/prog"
)

func main() {
	setup()
	fmt.Println("WorkerPool", prog.WorkerPool(20))
	fmt.Println("Pipeline", prog.Pipeline(10))
	fmt.Println("Selects", prog.Selects())
	fmt.Println("CondVar", prog.CondVar(5))
	fmt.Println("Misc", prog.Misc())
	fmt.Println("More", prog.More())
	fmt.Println("Polling", prog.Polling())
	fmt.Println(prog.Terminating())
}
