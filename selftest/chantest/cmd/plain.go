//go:build !simsched

package main

func setup() {}
