#!/bin/bash
# seeds_unchanged.sh "<seeds>" [tier]  — every check on the UNCHANGED tree for several seeds; any non-zero exit is a
# false alarm (or machinery trouble) and must be investigated. Evidence goes to a scratch directory.
HERE="$(cd "$(dirname "$0")" && pwd)"; SEEDS="${1:-2 3 4 5}"; TIER="${2:-quick}"
E=$(mktemp -d /var/tmp/evid.XXXXXX); trap 'rm -rf "$E"' EXIT
BAD=0
for SEED in $SEEDS; do for P in C05 C07 C11 C20; do
  OUT=$(VERIF_SEED=$SEED VERIF_EVIDENCE_DIR="$E" "$HERE/../check" $P $TIER 2>&1); rc=$?
  echo "seed=$SEED $P exit=$rc $(echo "$OUT" | grep "^$P " | head -1 | cut -c1-150)"
  if [ $rc -ne 0 ]; then BAD=1; echo "$OUT" | grep -v "^  fault" | tail -15; fi
done; done
[ $BAD -eq 0 ] && echo "ALL CLEAN" || echo "ATTENTION NEEDED"
