#!/usr/bin/env python3
"""mkpatch.py <out.diff> <file> <<< python-literal list of (old, new) pairs
Creates a unified diff (paths a/... b/...) of /repo/<file> with the replacements applied.
usage from python: make(out, {file: [(old,new),...]})"""
import sys, difflib, os
def make(out, edits, new_files=None):
    chunks=[]
    for f, pairs in edits.items():
        src=open(os.path.join('/repo',f)).read()
        dst=src
        for old,new in pairs:
            assert dst.count(old)>=1, (f, old[:60])
            dst=dst.replace(old,new,1)
        chunks.append(''.join(difflib.unified_diff(src.splitlines(True), dst.splitlines(True), 'a/'+f, 'b/'+f)))
    for f, content in (new_files or {}).items():
        chunks.append(''.join(difflib.unified_diff([], content.splitlines(True), '/dev/null', 'b/'+f)))
    open(out,'w').write(''.join(chunks))
