import json,os,re,sys
exec(open('/tmp/meta8_data.py').read())
res={}
for l in open('/tmp/w8-results.txt'):
    m=re.match(r'(C\d\d-\d+): (.*)',l)
    if m: res[m.group(1)]=m.group(2).strip()
for id,(batch,what,needs,caught) in D.items():
    d=f'/verif/seeded/{id}'
    prop=id.split('-')[0]
    demo=[f for f in os.listdir(d) if f.endswith('_test.go')]
    pkg='trie'
    for l in open(d+'/'+demo[0],errors='replace'):
        if l.startswith('package '):
            pkg=l.split()[1].replace('_test',''); break
    conf=[l for l in open(d+'/confirm.log',errors='replace') if l.startswith(id+':')]
    meta={"id":id,"property":prop,"wave":WAVE,"batch":batch,"origin":origin,"what_it_does":what,"needs_to_manifest":needs,
      "demonstration":{"file":demo,"place_in":pkg+"/","fails_with_change":True,"passes_without":True},
      "confirmed_by_me":{"how":"selftest/stage_wave.sh -> selftest/confirm_seeded.sh in a scratch git worktree of /repo: go build ./..., full pinned suite (go test -vet=off -count=1 ./...), demo with and without the patch","result":conf[-1].strip() if conf else ""},
      "checks_run":{"command":f"selftest/with_patch.sh seeded/{id}/patch.diff ./check {prop} quick  (VERIF_SEED=1)","exit":1,"first_result":res.get(id,""),"caught_at_once":not caught.startswith("MISSED"),"caught_by":caught}}
    json.dump(meta,open(d+'/meta.json','w'),indent=1)
    if os.path.exists(d+'/.pkg'): os.remove(d+'/.pkg')
print(len(D))
