#!/bin/bash
# replay_roundtrip.sh <patch> <prop> : check finds a violation on the patched copy; its replay file must
# reproduce (exit 1) on the patched copy in a fresh process and must NOT reproduce (exit 3) on the unchanged tree.
HERE="$(cd "$(dirname "$0")" && pwd)"; P="$1"; PROP="$2"
K=$(mktemp -d /var/tmp/replays.XXXXXX); trap 'rm -rf "$K"' EXIT
KEEP_REPLAYS="$K" VERIF_WORKERS=${VERIF_WORKERS:-4} "$HERE/with_patch.sh" "$P" "$HERE/../check" "$PROP" quick > "$K/out.txt" 2>&1; rc=$?
N=0; OKM=0; OKU=0
for F in $(grep -o 'replay=[^ ]*' "$K/out.txt" | sed 's/replay=//' | head -4); do
  F="$K/$(basename "$F")"; [ -f "$F" ] || continue; N=$((N+1))
  "$HERE/with_patch.sh" "$P" "$HERE/../check" replay "$F" > "$K/r1.txt" 2>&1; r1=$?
  "$HERE/../check" replay "$F" > "$K/r2.txt" 2>&1; r2=$?
  [ $r1 -eq 1 ] && OKM=$((OKM+1)); [ $r2 -eq 3 ] && OKU=$((OKU+1))
done
echo "$(basename "$P" .diff): check exit=$rc, $N replay files: $OKM reproduce on the changed tree, $OKU do not reproduce on the unchanged tree"
