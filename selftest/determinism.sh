#!/bin/bash
# determinism.sh [nseeds] [runs]
# Determinism proof of the simulator (DESIGN 7.1):
#  (a) in-process: every run twice from its seed and once from its recorded schedule (harness determinism);
#  (b) cross-process: the same seed in 3 OS processes at GOMAXPROCS 1, 4 and 16: per-run event-log hashes must be identical.
set -u
HERE="$(cd "$(dirname "$0")" && pwd)"; VERIF="$HERE/.."
NSEEDS=${1:-30}; RUNS=${2:-25}
export VERIF_DIR="$VERIF" GOFLAGS=-mod=mod GOPROXY=off GOSUMDB=off GOTOOLCHAIN=local
S=$(mktemp -d /var/tmp/slimsim.XXXXXX); trap 'rm -rf "$S"' EXIT
"$VERIF/sim/prepare.sh" "$S" || exit 2
echo "nondeterminism sources in harness/runtime (expect only comments / none):"
grep -n "\.Range(\|time\.Now\|math/rand\|rand\." "$VERIF"/sim/harness/*.go "$VERIF"/sim/simrt/*.go | grep -v "time.Now()\|t0\|start\|lastChange\|r\.\|rng\.\|srng\.\|chunkRng\." | head
BAD=0
for PROP in C11 C20 C05 C07; do
  for ((seed=1; seed<=NSEEDS; seed++)); do
    "$S/bin/harness" determinism -prop $PROP -seed $seed -runs $RUNS -fixtures /repo/trie/testdata > "$S/out/det-$PROP-$seed.log" 2>&1 &
    if (( seed % 16 == 0 )); then wait; fi
  done
  wait
  grep -h DIVERGENCE "$S"/out/det-$PROP-*.log | head -5
  N=$(grep -l " 0 divergences" "$S"/out/det-$PROP-*.log | wc -l)
  echo "in-process $PROP: $N/$NSEEDS seeds without divergence"
  [ "$N" -eq "$NSEEDS" ] || BAD=1
  for ((seed=1; seed<=NSEEDS; seed++)); do
    for G in 1 4 16; do
      ( export GOMAXPROCS=$G SLIMSIM_KEEP_GOMAXPROCS=1; "$S/bin/harness" run -prop $PROP -seed $seed -runs $RUNS -worker 0 -evlog -out "$S/out/x-$PROP-$seed-$G.json" -fixtures /repo/trie/testdata -replays "$S/out" ) >/dev/null 2>&1 &
    done
    if (( seed % 5 == 0 )); then wait; fi
  done
  wait
  python3 - "$S/out" $PROP $NSEEDS <<'PY' || BAD=1
import json,sys
d,prop,n=sys.argv[1],sys.argv[2],int(sys.argv[3]); bad=0
for seed in range(1,n+1):
    hs=[json.load(open(f"{d}/x-{prop}-{seed}-{g}.json"))["ev_hashes"] for g in (1,4,16)]
    if not (hs[0]==hs[1]==hs[2]): bad+=1; print("CROSS-PROCESS DIVERGENCE",prop,seed)
print(f"cross-process {prop}: {n-bad}/{n} seeds identical across GOMAXPROCS 1/4/16 ({len(hs[0])} runs each)")
sys.exit(1 if bad else 0)
PY
done
# (c) the controlled race lane: same proof with the spin baton in the -race binary (fewer seeds: it is slow)
R=$(mktemp -d /var/tmp/slimsim.XXXXXX); trap 'rm -rf "$S" "$R"' EXIT
"$VERIF/sim/prepare.sh" "$R" race >/dev/null 2>&1 || exit 2
for PROP in C11 C20; do
  for ((seed=1; seed<=6; seed++)); do
    GORACE="halt_on_error=1 exitcode=66" "$R/bin/harness-race" determinism -spin -prop $PROP -seed $seed -runs 12 -fixtures /repo/trie/testdata > "$S/out/detspin-$PROP-$seed.log" 2>&1 &
  done
  wait
  grep -h DIVERGENCE "$S"/out/detspin-$PROP-*.log | head -5
  N=$(grep -l " 0 divergences" "$S"/out/detspin-$PROP-*.log | wc -l)
  echo "controlled race lane $PROP: $N/6 seeds without divergence (12 runs each: twice from the seed + once from the recorded schedule)"
  [ "$N" -eq 6 ] || BAD=1
done
[ $BAD -eq 0 ] && echo "DETERMINISM OK" || { echo "DETERMINISM FAILED"; exit 2; }
