#!/bin/bash
# run_goroutines.sh [seed]: all four checks (quick) against every patch of selftest/goroutines/
# (changes that add goroutines, WaitGroups, channels, select to the code under test; DESIGN 12.20).
# Expected: *-benign-* exit 0 in all four checks; *-bug-* exit 1 in C11 and C20 at least.
HERE="$(cd "$(dirname "$0")" && pwd)"; SEED="${1:-1}"
for P in "$HERE"/goroutines/*.diff; do
  LINE="$(basename "$P" .diff):"
  for PROP in C05 C07 C11 C20; do
    OUT=$(VERIF_SEED=$SEED "$HERE/with_patch.sh" "$P" "$HERE/../check" "$PROP" quick 2>&1); rc=$?
    LINE="$LINE $PROP=exit$rc"
    if [ $rc -ne 0 ]; then LINE="$LINE[$(echo "$OUT" | grep -o 'oracle=[a-z-]*' | sort | uniq -c | sort -rn | head -3 | awk '{printf "%s(%s) ", $2, $1}')$(echo "$OUT" | grep -m1 'prepare:\|WATCHDOG\|merge:' | cut -c1-80)]"; fi
  done
  echo "$LINE"
done
