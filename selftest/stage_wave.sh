#!/bin/bash
# stage_wave.sh <src-dir> <seeded-id>   copy a sub-agent's change into seeded/<id>/ and confirm it
# (scratch git worktree: suite passes with it, demonstration fails with it and passes without).
set -u
HERE="$(cd "$(dirname "$0")" && pwd)"
SRC="$1"; ID="$2"; D="$HERE/../seeded/$ID"
mkdir -p "$D"
cp "$SRC/patch.diff" "$D/" || exit 2
cp "$SRC"/*_test.go "$D/" 2>/dev/null
[ -f "$SRC/README.md" ] && cp "$SRC/README.md" "$D/"
DEMO=$(ls "$D"/*_test.go | head -1)
PKG=$(grep -m1 '^package ' "$DEMO" | awk '{print $2}' | sed 's/_test$//')
echo "$PKG" > "$D/.pkg"
"$HERE/confirm_seeded.sh" "$D" "$PKG"
