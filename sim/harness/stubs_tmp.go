package main

type C20Scn struct {
	Spec    *TrieSpec  `json:"spec,omitempty"`
	Readers []TaskSpec `json:"readers"`
}
type C05Scn struct{}

func genC20(r *Rng, tier string) *C20Scn                  { return nil }
func genC05(r *Rng, tier string) *C05Scn                  { return nil }
func executeC20(s *Scenario) *RunResult                   { return nil }
func executeC05(s *Scenario) *RunResult                   { return nil }
func redC05(s *Scenario) []func(*Scenario) bool           { return nil }

func raceC20(s *Scenario) *RunResult { return nil }
