package main

import (
	"crypto/sha256"
	"encoding/hex"
	"fmt"
	"runtime"
	"strconv"

	"github.com/golang/protobuf/proto"
	"github.com/openacid/slim/index"
	"github.com/openacid/slim/trie"
	"github.com/openacid/slim/xsimrt"
)

// A Unit is the thing that must behave as if alone: one API call, or the whole
// life of one iterator (NewIter + its next() calls).
type Unit struct {
	Kind    string `json:"k"`
	Q       []byte `json:"q,omitempty"`
	Q2      []byte `json:"q2,omitempty"`
	Incl    bool   `json:"incl,omitempty"`
	Incl2   bool   `json:"incl2,omitempty"`
	WithVal bool   `json:"wv,omitempty"`
	Limit   int    `json:"lim,omitempty"`    // callback stops after Limit entries / number of next() calls
	Nested  string `json:"nested,omitempty"` // re-entrant call issued from inside the callback: get | search | scan | iter
	Spread  bool   `json:"spread,omitempty"` // iterator whose next() calls are spread among the following units of its task

	ckey string // cached key(), computed in the main goroutine before tasks start
}

var unitKinds = []string{"get", "getid", "rangeget", "search", "geti8", "geti16", "geti32", "geti64",
	"scanfrom", "scanfromto", "iter", "stat", "string", "marshal", "protosize", "protomarshal",
	// through index.SlimIndex (int64 offsets + a DataReader); weight 0 unless the values are 8-byte ints
	"idxget", "idxrangeget",
	"getversion"}

// index.SlimIndex embeds the trie BY VALUE, so an index over a subject is a
// second struct that shares the subject's arrays. It is made once per instance,
// outside the concurrent phase (copying a struct that another task is using
// would be the harness' own race), and shared by all tasks.
var indexReg []*indexEntry

// indexFrozen: free-running goroutines are reading the registry (race lane).
var indexFrozen bool

type indexEntry struct {
	st   *trie.SlimTrie
	si   *index.SlimIndex
	home bool // st IS &si.SlimTrie: the instance lives inside the index struct
}

// newIndexHome moves an instance into an index.SlimIndex, the way
// index.NewSlimIndex keeps it (embedded by value), and returns the pointer to
// the embedded trie: from then on the SlimIndex is the object the "user" holds
// across the whole history (loads through si.Unmarshal, reads through si.Get /
// si.RangeGet), and st-level calls act on the same memory.
func newIndexHome(st *trie.SlimTrie) *trie.SlimTrie {
	si := &index.SlimIndex{SlimTrie: *st, DataReader: offsetReader{}}
	return adoptIndexHome(si)
}

func adoptIndexHome(si *index.SlimIndex) *trie.SlimTrie {
	if si.DataReader == nil {
		si.DataReader = offsetReader{}
	}
	if curSim == nil && !indexFrozen {
		indexReg = append(indexReg, &indexEntry{st: &si.SlimTrie, si: si, home: true})
	}
	return &si.SlimTrie
}

// homeOf: the index an instance lives in (nil: a plain *trie.SlimTrie).
func homeOf(st *trie.SlimTrie) *index.SlimIndex {
	for _, e := range indexReg {
		if e.home && e.st == st {
			return e.si
		}
	}
	return nil
}

// forgetIndexCopy drops the by-value index copy registered for st (not a home):
// the copy is a snapshot of the struct, stale as soon as st is loaded again.
func forgetIndexCopy(st *trie.SlimTrie) {
	if curSim != nil || indexFrozen {
		return
	}
	for i, e := range indexReg {
		if !e.home && e.st == st {
			indexReg = append(indexReg[:i], indexReg[i+1:]...)
			return
		}
	}
}

func dropIndexHome(st *trie.SlimTrie) {
	for i, e := range indexReg {
		if e.home && e.st == st {
			indexReg = append(indexReg[:i], indexReg[i+1:]...)
			return
		}
	}
}

type offsetReader struct{}

// Read is the DataReader of the simulated record file: the record at an offset
// is the offset itself and the key that was asked for.
func (offsetReader) Read(offset int64, key string) (string, bool) {
	// the read takes time: whoever the scheduler picks runs while it is in flight
	xsimrt.Yield(siteReaderIO)
	v := strconv.FormatInt(offset, 10) + "@" + key
	xsimrt.Yield(siteReaderIO)
	return v, offset%5 != 3
}

func indexOf(st *trie.SlimTrie) *index.SlimIndex {
	for _, e := range indexReg {
		if e.st == st {
			return e.si
		}
	}
	if curSim != nil || indexFrozen {
		// not prepared before the concurrent phase: this call gets a private one
		// (never registered from task context)
		return &index.SlimIndex{SlimTrie: *st, DataReader: offsetReader{}}
	}
	e := &indexEntry{st: st, si: &index.SlimIndex{SlimTrie: *st, DataReader: offsetReader{}}}
	indexReg = append(indexReg, e)
	return e.si
}

func (u *Unit) key() string {
	if u.ckey == "" {
		u.ckey = fmt.Sprintf("%s|%x|%x|%v%v%v|%d|%s", u.Kind, u.Q, u.Q2, u.Incl, u.Incl2, u.WithVal, u.Limit, u.Nested)
	}
	return u.ckey
}

func (u *Unit) short() string {
	q := u.Q
	if len(q) > 12 {
		q = q[:12]
	}
	return fmt.Sprintf("%s(%q)", u.Kind, q)
}

// obuf builds canonical outcome strings WITHOUT the fmt package: fmt recycles
// its printers through a sync.Pool, and in the controlled race lane a pooled
// object travelling between tasks would create happens-before edges between
// them (and sync.Pool drops objects at random in race builds). Everything a
// task does between two calls into the code under test must be free of
// synchronisation.
type obuf struct{ b []byte }

const hexdigits = "0123456789abcdef"

func (o *obuf) s(x string) { o.b = append(o.b, x...) }
func (o *obuf) c(x byte)   { o.b = append(o.b, x) }
func (o *obuf) i(x int64)  { o.b = strconv.AppendInt(o.b, x, 10) }
func (o *obuf) u(x uint64) { o.b = strconv.AppendUint(o.b, x, 10) }
func (o *obuf) t(x bool) {
	if x {
		o.s("true")
	} else {
		o.s("false")
	}
}
func (o *obuf) hex(x []byte) {
	for _, c := range x {
		o.b = append(o.b, hexdigits[c>>4], hexdigits[c&15])
	}
}
func (o *obuf) hexOrNil(x []byte) {
	if x == nil {
		o.s("nil")
		return
	}
	o.hex(x)
}
func (o *obuf) String() string { return string(o.b) }

// val appends a canonical rendering of a decoded value.
func (o *obuf) val(v interface{}) {
	switch x := v.(type) {
	case nil:
		o.s("nil")
	case []byte:
		o.s("b:")
		o.hex(x)
	case string:
		o.s("s:")
		o.b = strconv.AppendQuote(o.b, x)
	case int8:
		o.s("int8:")
		o.i(int64(x))
	case int16:
		o.s("int16:")
		o.i(int64(x))
	case int32:
		o.s("int32:")
		o.i(int64(x))
	case int64:
		o.s("int64:")
		o.i(x)
	case int:
		o.s("int:")
		o.i(int64(x))
	case uint16:
		o.s("uint16:")
		o.u(uint64(x))
	case uint32:
		o.s("uint32:")
		o.u(uint64(x))
	case uint64:
		o.s("uint64:")
		o.u(x)
	case pairLE:
		o.s("pairLE:{")
		o.u(uint64(x.A))
		o.c(' ')
		o.i(int64(x.B))
		o.c(' ')
		o.u(uint64(x.C[0]))
		o.c(' ')
		o.u(uint64(x.C[1]))
		o.c('}')
	default:
		o.s(fmt.Sprintf("%T:%#v", v, v))
	}
}

func fmtVal(v interface{}) string {
	var o obuf
	o.val(v)
	return o.String()
}

func (o *obuf) digest(b []byte) {
	h := sha256.Sum256(b)
	o.s("len=")
	o.i(int64(len(b)))
	o.s(" sha=")
	o.hex(h[:12])
}

func digest(b []byte) string {
	var o obuf
	o.digest(b)
	return o.String()
}

func (o *obuf) err(e error) {
	if e == nil {
		o.s(" err=<nil>")
		return
	}
	o.s(" err=")
	o.s(e.Error())
}

func panicStr(r interface{}) string {
	var s string
	switch x := r.(type) {
	case error:
		s = x.Error()
	case string:
		s = x
	default:
		s = fmt.Sprint(r)
	}
	if len(s) > 200 {
		s = s[:200]
	}
	return "panic:" + s
}

// abortUnit is thrown by the simulator's hook to unwind a unit that exceeded
// its step cap; it must not be swallowed as an ordinary panic outcome.
type abortUnit struct{ why string }

func recoverInto(out *string, sb *obuf) {
	if r := recover(); r != nil {
		if a, ok := r.(abortUnit); ok {
			*out = sb.String() + "ABORT:" + a.why
			return
		}
		*out = sb.String() + panicStr(r)
	}
}

// run executes the unit to completion on st. y (may be nil) is a harness-level
// yield offered inside callbacks and between next() calls.
func (u *Unit) run(st *trie.SlimTrie, y func()) (out string) {
	var sb obuf
	defer recoverInto(&out, &sb)
	q := string(u.Q)
	switch u.Kind {
	case "get":
		v, f := st.Get(q)
		sb.val(v)
		sb.c(',')
		sb.t(f)
	case "getid":
		sb.i(int64(st.GetID(q)))
	case "rangeget":
		v, f := st.RangeGet(q)
		sb.val(v)
		sb.c(',')
		sb.t(f)
	case "search":
		l, e, r := st.Search(q)
		sb.val(l)
		sb.c(',')
		sb.val(e)
		sb.c(',')
		sb.val(r)
	case "geti8":
		v, f := st.GetI8(q)
		sb.i(int64(v))
		sb.c(',')
		sb.t(f)
	case "geti16":
		v, f := st.GetI16(q)
		sb.i(int64(v))
		sb.c(',')
		sb.t(f)
	case "geti32":
		v, f := st.GetI32(q)
		sb.i(int64(v))
		sb.c(',')
		sb.t(f)
	case "geti64":
		v, f := st.GetI64(q)
		sb.i(v)
		sb.c(',')
		sb.t(f)
	case "idxget", "idxrangeget":
		si := indexOf(st)
		var v string
		var f bool
		if u.Kind == "idxget" {
			v, f = si.Get(q)
		} else {
			v, f = si.RangeGet(q)
		}
		sb.s(v)
		sb.c(',')
		sb.t(f)
	case "scanfrom", "scanfromto":
		n := 0
		cb := func(k, v []byte) bool {
			// the slices are temporaries: copy at once
			sb.hex(k)
			sb.c('=')
			sb.hexOrNil(v)
			sb.c(';')
			n++
			if y != nil {
				y()
			}
			u.nested(st, &sb, k, y)
			return u.Limit <= 0 || n < u.Limit
		}
		if u.Kind == "scanfrom" {
			st.ScanFrom(q, u.Incl, u.WithVal, cb)
		} else {
			st.ScanFromTo(q, u.Incl, string(u.Q2), u.Incl2, u.WithVal, cb)
		}
		sb.s("n=")
		sb.i(int64(n))
	case "iter":
		it := u.open(st)
		for it.left > 0 {
			if y != nil {
				y()
			}
			it.step()
		}
		return it.outcome()
	case "stat":
		x := st.Stat()
		sb.s("{LevelCnt:")
		sb.i(int64(x.LevelCnt))
		sb.s(" Levels:[")
		for _, l := range x.Levels {
			sb.c('{')
			sb.i(int64(l.Total))
			sb.c(' ')
			sb.i(int64(l.Inner))
			sb.c(' ')
			sb.i(int64(l.Leaf))
			sb.c('}')
		}
		sb.s("] KeyCnt:")
		sb.i(int64(x.KeyCnt))
		sb.s(" NodeCnt:")
		sb.i(int64(x.NodeCnt))
		sb.c('}')
	case "string":
		s := st.String()
		sb.digest([]byte(s))
	case "marshal":
		b, err := st.Marshal()
		sb.digest(b)
		sb.err(err)
	case "getversion":
		sb.s(st.GetVersion())
	case "protosize":
		sb.i(int64(proto.Size(st)))
	case "protomarshal":
		b, err := proto.Marshal(st)
		sb.digest(b)
		sb.err(err)
	default:
		panic("unknown unit kind " + u.Kind)
	}
	return sb.String()
}

func fmtBytesOrNil(b []byte) string {
	if b == nil {
		return "nil"
	}
	return hex.EncodeToString(b)
}

// nested issues a re-entrant call from inside a scan callback.
func (u *Unit) nested(st *trie.SlimTrie, sb *obuf, k []byte, y func()) {
	switch u.Nested {
	case "":
	case "get":
		v, f := st.Get(string(k))
		sb.c('[')
		sb.val(v)
		sb.c(',')
		sb.t(f)
		sb.c(']')
	case "search":
		l, e, r := st.Search(string(k) + "\x00")
		sb.c('[')
		sb.val(l)
		sb.c(',')
		sb.val(e)
		sb.c(',')
		sb.val(r)
		sb.c(']')
	case "scan":
		m := 0
		st.ScanFrom(string(k), false, u.WithVal, func(k2, v2 []byte) bool {
			sb.c('[')
			sb.hex(k2)
			sb.c('=')
			sb.hexOrNil(v2)
			sb.c(']')
			m++
			return m < 2
		})
	case "iter":
		nx := st.NewIter(string(k), true, false)
		k2, _ := nx()
		k2 = append([]byte{}, k2...)
		k3, _ := nx()
		sb.c('[')
		sb.hex(k2)
		sb.c(',')
		sb.hex(k3)
		sb.c(']')
	}
}

// iterState is a live iterator unit.
type iterState struct {
	u    *Unit
	st   *trie.SlimTrie
	next trie.NextRaw
	left int
	sb   obuf
	dead bool

	lastK    []byte // the key yielded last, as handed out (not copied)
	lastCopy []byte
}

// retainCheck (free-running race lane only: under the simulator finalizers
// never run, 12.20): when an iterator is finished the harness drops it but
// keeps the key it yielded last, lets the collector and the finalizers run,
// walks a fresh iterator and looks at the kept key again. A key stays valid
// until the next call of the SAME iterator; memory handed to the caller must
// not come back through a pool while the caller can still see it.
var retainCheck bool

func (u *Unit) open(st *trie.SlimTrie) (it *iterState) {
	it = &iterState{u: u, st: st, left: u.Limit}
	if it.left <= 0 {
		it.left = 1
	}
	defer func() {
		if r := recover(); r != nil {
			if a, ok := r.(abortUnit); ok {
				it.sb.s("ABORT:" + a.why)
			} else {
				it.sb.s(panicStr(r))
			}
			it.dead, it.left = true, 0
		}
	}()
	it.next = st.NewIter(string(u.Q), u.Incl, u.WithVal)
	it.sb.s("open;")
	return it
}

func (it *iterState) step() {
	if it.dead || it.left <= 0 {
		it.left = 0
		return
	}
	it.left--
	defer func() {
		if r := recover(); r != nil {
			if a, ok := r.(abortUnit); ok {
				it.sb.s("ABORT:" + a.why)
			} else {
				it.sb.s(panicStr(r))
			}
			it.dead, it.left = true, 0
		}
	}()
	k, v := it.next()
	if k == nil {
		it.sb.s("end,")
		it.sb.hexOrNil(v)
		it.sb.c(';')
		return
	}
	it.sb.hex(k)
	it.sb.c('=')
	it.sb.hexOrNil(v)
	it.sb.c(';')
	if retainCheck {
		it.lastK, it.lastCopy = k, append(it.lastCopy[:0], k...)
	}
}

func (it *iterState) outcome() string {
	if retainCheck && it.lastK != nil && !it.dead {
		it.next = nil // unreachable from here on; the key it yielded is not
		func() {
			defer func() { recover() }()
			runtime.GC()
			runtime.Gosched()
			runtime.GC() // (objects with finalizers need a second cycle)
			runtime.Gosched()
			nx := it.st.NewIter(string(it.u.Q), true, false)
			for i := 0; i < 3; i++ {
				if k, _ := nx(); k == nil {
					break
				}
			}
		}()
		if string(it.lastK) != string(it.lastCopy) {
			it.sb.s("RETAINED-KEY-OVERWRITTEN:")
			it.sb.hex(it.lastCopy)
			it.sb.s("->")
			it.sb.hex(it.lastK)
		}
		it.lastK = nil
	}
	return it.sb.String()
}

// ---------------------------------------------------------------------------
// unit generation

type UnitMix struct {
	Complete  bool // subject stores complete keys (scans meaningful)
	Small     bool // String() allowed
	Heavy     bool // marshal/protomarshal allowed often
	IntWidth  int  // 1,2,4,8 if values are little-endian ints of that width; 0 otherwise
	Index     bool // reads through index.SlimIndex as well (the index of the subject is made before the concurrent phase)
	IdxHeavy  bool // ... and mostly so
	ScanLimit int
}

func genUnit(r *Rng, qs [][]byte, mix UnitMix) Unit {
	pick := func() []byte { return qs[r.Intn(len(qs))] }
	w := map[string]int{
		"get": 10, "getid": 5, "rangeget": 8, "search": 8,
		"geti8": 1, "geti16": 1, "geti32": 1, "geti64": 1,
		"scanfrom": 1, "scanfromto": 1, "iter": 1,
		"stat": 2, "string": 0, "marshal": 1, "protosize": 2, "protomarshal": 1, "getversion": 1,
	}
	if mix.Complete {
		w["scanfrom"], w["scanfromto"], w["iter"] = 8, 6, 10
	}
	if mix.Small {
		w["string"] = 2
	}
	if mix.Heavy {
		w["marshal"], w["protomarshal"] = 4, 3
	}
	switch mix.IntWidth {
	case 1:
		w["geti8"] = 6
	case 2:
		w["geti16"] = 6
	case 4:
		w["geti32"] = 6
	case 8:
		w["geti64"] = 6
		if mix.Index {
			w["idxget"], w["idxrangeget"] = 4, 4
			if mix.IdxHeavy {
				w["idxget"], w["idxrangeget"] = 30, 40
			}
		}
	}
	ws := make([]int, len(unitKinds))
	for i, k := range unitKinds {
		ws[i] = w[k]
	}
	u := Unit{Kind: unitKinds[r.WeightedPick(ws)]}
	lim := mix.ScanLimit
	if lim <= 0 {
		lim = 6
	}
	switch u.Kind {
	case "stat", "string", "marshal", "protosize", "protomarshal", "getversion":
	case "scanfrom":
		u.Q, u.Incl, u.WithVal, u.Limit = pick(), r.Bool(), r.Bool(), r.Range(1, lim)
		if r.Chance(0.3) {
			u.Nested = r.PickS("get", "search", "scan", "iter")
		}
	case "scanfromto":
		u.Q, u.Q2 = pick(), pick()
		u.Incl, u.Incl2, u.WithVal, u.Limit = r.Bool(), r.Bool(), r.Bool(), r.Range(1, lim)
		if r.Chance(0.2) {
			u.Nested = r.PickS("get", "search", "scan", "iter")
		}
	case "iter":
		u.Q, u.Incl, u.WithVal, u.Limit = pick(), r.Bool(), r.Bool(), r.Range(1, lim+2)
		u.Spread = r.Chance(0.6)
	default:
		u.Q = pick()
	}
	// long scans: most scans stop after a handful of entries (the callback
	// says so); some run on - to the end of a small trie, a few dozen entries
	// of a larger one. Read-ahead, batching and "the trie is exhausted" paths
	// only exist beyond the first entries.
	switch u.Kind {
	case "scanfrom", "scanfromto", "iter":
		if r.Chance(0.15) {
			if mix.Small {
				u.Limit = 100000
			} else {
				u.Limit = r.PickI(12, 40, 150)
			}
		}
	}
	return u
}
