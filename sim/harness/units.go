package main

import (
	"crypto/sha256"
	"encoding/hex"
	"fmt"
	"strings"

	"github.com/golang/protobuf/proto"
	"github.com/openacid/slim/trie"
)

// A Unit is the thing that must behave as if alone: one API call, or the whole
// life of one iterator (NewIter + its next() calls).
type Unit struct {
	Kind    string `json:"k"`
	Q       []byte `json:"q,omitempty"`
	Q2      []byte `json:"q2,omitempty"`
	Incl    bool   `json:"incl,omitempty"`
	Incl2   bool   `json:"incl2,omitempty"`
	WithVal bool   `json:"wv,omitempty"`
	Limit   int    `json:"lim,omitempty"`    // callback stops after Limit entries / number of next() calls
	Nested  string `json:"nested,omitempty"` // re-entrant call issued from inside the callback: get | search | scan | iter
	Spread  bool   `json:"spread,omitempty"` // iterator whose next() calls are spread among the following units of its task
}

var unitKinds = []string{"get", "getid", "rangeget", "search", "geti8", "geti16", "geti32", "geti64",
	"scanfrom", "scanfromto", "iter", "stat", "string", "marshal", "protosize", "protomarshal"}

func (u *Unit) key() string {
	return fmt.Sprintf("%s|%x|%x|%v%v%v|%d|%s", u.Kind, u.Q, u.Q2, u.Incl, u.Incl2, u.WithVal, u.Limit, u.Nested)
}

func (u *Unit) short() string {
	q := u.Q
	if len(q) > 12 {
		q = q[:12]
	}
	return fmt.Sprintf("%s(%q)", u.Kind, q)
}

func fmtVal(v interface{}) string {
	switch x := v.(type) {
	case nil:
		return "nil"
	case []byte:
		return "b:" + hex.EncodeToString(x)
	}
	return fmt.Sprintf("%T:%#v", v, v)
}

func digest(b []byte) string {
	h := sha256.Sum256(b)
	return fmt.Sprintf("len=%d sha=%x", len(b), h[:12])
}

func panicStr(r interface{}) string {
	s := fmt.Sprint(r)
	if len(s) > 200 {
		s = s[:200]
	}
	return "panic:" + s
}

// abortUnit is thrown by the simulator's hook to unwind a unit that exceeded
// its step cap; it must not be swallowed as an ordinary panic outcome.
type abortUnit struct{ why string }

func recoverInto(out *string, sb *strings.Builder) {
	if r := recover(); r != nil {
		if a, ok := r.(abortUnit); ok {
			*out = sb.String() + "ABORT:" + a.why
			return
		}
		*out = sb.String() + panicStr(r)
	}
}

// run executes the unit to completion on st. y (may be nil) is a harness-level
// yield offered inside callbacks and between next() calls.
func (u *Unit) run(st *trie.SlimTrie, y func()) (out string) {
	var sb strings.Builder
	defer recoverInto(&out, &sb)
	q := string(u.Q)
	switch u.Kind {
	case "get":
		v, f := st.Get(q)
		fmt.Fprintf(&sb, "%s,%v", fmtVal(v), f)
	case "getid":
		fmt.Fprintf(&sb, "%d", st.GetID(q))
	case "rangeget":
		v, f := st.RangeGet(q)
		fmt.Fprintf(&sb, "%s,%v", fmtVal(v), f)
	case "search":
		l, e, r := st.Search(q)
		fmt.Fprintf(&sb, "%s,%s,%s", fmtVal(l), fmtVal(e), fmtVal(r))
	case "geti8":
		v, f := st.GetI8(q)
		fmt.Fprintf(&sb, "%d,%v", v, f)
	case "geti16":
		v, f := st.GetI16(q)
		fmt.Fprintf(&sb, "%d,%v", v, f)
	case "geti32":
		v, f := st.GetI32(q)
		fmt.Fprintf(&sb, "%d,%v", v, f)
	case "geti64":
		v, f := st.GetI64(q)
		fmt.Fprintf(&sb, "%d,%v", v, f)
	case "scanfrom", "scanfromto":
		n := 0
		cb := func(k, v []byte) bool {
			// the slices are temporaries: copy at once
			fmt.Fprintf(&sb, "%x=%s;", k, fmtBytesOrNil(v))
			n++
			if y != nil {
				y()
			}
			u.nested(st, &sb, k, y)
			return u.Limit <= 0 || n < u.Limit
		}
		if u.Kind == "scanfrom" {
			st.ScanFrom(q, u.Incl, u.WithVal, cb)
		} else {
			st.ScanFromTo(q, u.Incl, string(u.Q2), u.Incl2, u.WithVal, cb)
		}
		fmt.Fprintf(&sb, "n=%d", n)
	case "iter":
		it := u.open(st)
		for it.left > 0 {
			if y != nil {
				y()
			}
			it.step()
		}
		return it.outcome()
	case "stat":
		fmt.Fprintf(&sb, "%+v", *st.Stat())
	case "string":
		s := st.String()
		sb.WriteString(digest([]byte(s)))
	case "marshal":
		b, err := st.Marshal()
		fmt.Fprintf(&sb, "%s err=%v", digest(b), err)
	case "protosize":
		fmt.Fprintf(&sb, "%d", proto.Size(st))
	case "protomarshal":
		b, err := proto.Marshal(st)
		fmt.Fprintf(&sb, "%s err=%v", digest(b), err)
	default:
		panic("unknown unit kind " + u.Kind)
	}
	return sb.String()
}

func fmtBytesOrNil(b []byte) string {
	if b == nil {
		return "nil"
	}
	return hex.EncodeToString(b)
}

// nested issues a re-entrant call from inside a scan callback.
func (u *Unit) nested(st *trie.SlimTrie, sb *strings.Builder, k []byte, y func()) {
	switch u.Nested {
	case "":
	case "get":
		v, f := st.Get(string(k))
		fmt.Fprintf(sb, "[%s,%v]", fmtVal(v), f)
	case "search":
		l, e, r := st.Search(string(k) + "\x00")
		fmt.Fprintf(sb, "[%s,%s,%s]", fmtVal(l), fmtVal(e), fmtVal(r))
	case "scan":
		m := 0
		st.ScanFrom(string(k), false, u.WithVal, func(k2, v2 []byte) bool {
			fmt.Fprintf(sb, "[%x=%s]", k2, fmtBytesOrNil(v2))
			m++
			return m < 2
		})
	case "iter":
		nx := st.NewIter(string(k), true, false)
		k2, _ := nx()
		k3, _ := nx()
		fmt.Fprintf(sb, "[%x,%x]", k2, k3)
	}
}

// iterState is a live iterator unit.
type iterState struct {
	u    *Unit
	next trie.NextRaw
	left int
	sb   strings.Builder
	dead bool
}

func (u *Unit) open(st *trie.SlimTrie) (it *iterState) {
	it = &iterState{u: u, left: u.Limit}
	if it.left <= 0 {
		it.left = 1
	}
	defer func() {
		if r := recover(); r != nil {
			if a, ok := r.(abortUnit); ok {
				it.sb.WriteString("ABORT:" + a.why)
			} else {
				it.sb.WriteString(panicStr(r))
			}
			it.dead, it.left = true, 0
		}
	}()
	it.next = st.NewIter(string(u.Q), u.Incl, u.WithVal)
	it.sb.WriteString("open;")
	return it
}

func (it *iterState) step() {
	if it.dead || it.left <= 0 {
		it.left = 0
		return
	}
	it.left--
	defer func() {
		if r := recover(); r != nil {
			if a, ok := r.(abortUnit); ok {
				it.sb.WriteString("ABORT:" + a.why)
			} else {
				it.sb.WriteString(panicStr(r))
			}
			it.dead, it.left = true, 0
		}
	}()
	k, v := it.next()
	if k == nil {
		fmt.Fprintf(&it.sb, "end,%s;", fmtBytesOrNil(v))
		return
	}
	fmt.Fprintf(&it.sb, "%x=%s;", k, fmtBytesOrNil(v))
}

func (it *iterState) outcome() string { return it.sb.String() }

// ---------------------------------------------------------------------------
// unit generation

type UnitMix struct {
	Complete  bool // subject stores complete keys (scans meaningful)
	Small     bool // String() allowed
	Heavy     bool // marshal/protomarshal allowed often
	IntWidth  int  // 1,2,4,8 if values are little-endian ints of that width; 0 otherwise
	ScanLimit int
}

func genUnit(r *Rng, qs [][]byte, mix UnitMix) Unit {
	pick := func() []byte { return qs[r.Intn(len(qs))] }
	w := map[string]int{
		"get": 10, "getid": 5, "rangeget": 8, "search": 8,
		"geti8": 1, "geti16": 1, "geti32": 1, "geti64": 1,
		"scanfrom": 1, "scanfromto": 1, "iter": 1,
		"stat": 2, "string": 0, "marshal": 1, "protosize": 2, "protomarshal": 1,
	}
	if mix.Complete {
		w["scanfrom"], w["scanfromto"], w["iter"] = 8, 6, 10
	}
	if mix.Small {
		w["string"] = 2
	}
	if mix.Heavy {
		w["marshal"], w["protomarshal"] = 4, 3
	}
	switch mix.IntWidth {
	case 1:
		w["geti8"] = 6
	case 2:
		w["geti16"] = 6
	case 4:
		w["geti32"] = 6
	case 8:
		w["geti64"] = 6
	}
	ws := make([]int, len(unitKinds))
	for i, k := range unitKinds {
		ws[i] = w[k]
	}
	u := Unit{Kind: unitKinds[r.WeightedPick(ws)]}
	lim := mix.ScanLimit
	if lim <= 0 {
		lim = 6
	}
	switch u.Kind {
	case "stat", "string", "marshal", "protosize", "protomarshal":
	case "scanfrom":
		u.Q, u.Incl, u.WithVal, u.Limit = pick(), r.Bool(), r.Bool(), r.Range(1, lim)
		if r.Chance(0.3) {
			u.Nested = r.PickS("get", "search", "scan", "iter")
		}
	case "scanfromto":
		u.Q, u.Q2 = pick(), pick()
		u.Incl, u.Incl2, u.WithVal, u.Limit = r.Bool(), r.Bool(), r.Bool(), r.Range(1, lim)
		if r.Chance(0.2) {
			u.Nested = r.PickS("get", "search", "scan", "iter")
		}
	case "iter":
		u.Q, u.Incl, u.WithVal, u.Limit = pick(), r.Bool(), r.Bool(), r.Range(1, lim+2)
		u.Spread = r.Chance(0.6)
	default:
		u.Q = pick()
	}
	return u
}
