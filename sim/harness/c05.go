package main

import (
	"bytes"
	"fmt"
	"strings"

	"github.com/golang/protobuf/proto"
	"github.com/openacid/slim/trie"
	"github.com/openacid/slim/xsimrt"
)

// C05 — Marshal/Unmarshal round trip preserves every answer, Marshal is
// byte-stable, no residue. What the simulator owns here: the map iteration
// order inside the builder (PRNG permutations through the seam) and the
// operation history of an instance.

type C05Step struct {
	Op      string `json:"op"` // unmarshal | protounmarshal | reset | legacy | failcut | failver
	Src     int    `json:"src,omitempty"`
	Fixture string `json:"fixture,omitempty"`
	CutPM   int    `json:"cut_per_mille,omitempty"`
}

type C05Scn struct {
	Inputs    []TrieSpec `json:"inputs"`
	Gens      []string   `json:"gens,omitempty"`
	PermSeeds []uint64   `json:"perm_seeds"`
	Start     string     `json:"start"` // fresh | built | loaded
	StartSrc  int        `json:"start_src,omitempty"`
	History   []C05Step  `json:"history"`
	Queries   [][][]byte `json:"queries"`
	Twin      bool       `json:"two_lifecycles_under_scheduler,omitempty"`
	// Poison: build this large regular trie between two builds of input 0; the
	// two builds must still marshal identically ("building twice from equal
	// input" must not depend on what the process built in between: pooled or
	// package-level builder state).
	Poison string `json:"build_in_between,omitempty"`
	Matrix bool   `json:"transition_matrix,omitempty"`
	Chunk  int    `json:"chunk"`
	// IndexHome: the instance lives inside an index.SlimIndex for the whole
	// history (built by index.NewSlimIndex when the start state is "built" and
	// the input allows it); with int64 values the battery also reads through
	// SlimIndex.Get / RangeGet of that same object.
	IndexHome bool `json:"instance_lives_in_slimindex,omitempty"`
	// Interlude: between the steps of the history something unrelated happens
	// in the process - a small trie with the SIBLING of this lifecycle's encoder
	// (same Go type, other byte order) or another option set is built,
	// marshalled, loaded into an instance of its own and queried. The source
	// tries nobody touches must keep answering the same.
	Interlude bool `json:"interlude,omitempty"`
}

func genC05(r *Rng, tier string) *C05Scn {
	c := &C05Scn{Chunk: r.PickI(1, 13, 128, 4096)}
	lim := GenLimits{MaxKeys: 1500}
	if r.Chance(0.15) {
		lim.MaxKeys = 3000
	}
	if tier == "thorough" && r.Chance(0.1) {
		lim.MaxKeys = 100000
	}
	n := r.Range(1, 3)
	first, _ := genSpec(r, lim)
	bigVals := r.Chance(0.02)
	if bigVals {
		first, _ = genBigValueSpec(r)
	}
	if r.Chance(0.3) {
		first.Enc = "i32" // lets archived legacy streams take part in the history
	} else if r.Chance(0.2) {
		first.Enc = "i64" // offsets: the instance can be read through index.SlimIndex
	}
	for i := 0; i < n; i++ {
		sp, name := genSpec(r, lim)
		if bigVals && i == 0 {
			sp, name = first, "bigvalues/"+first.Enc
		}
		sp.Enc = first.Enc
		if i > 0 && r.Chance(0.25) {
			// same keys, different options: residue of prefix arrays / leaves is the risk
			sp.Keys = c.Inputs[0].Keys
			sp.ValIDs = c.Inputs[0].ValIDs
			if r.Bool() {
				sp.ValIDs = nil
			} else if sp.ValIDs == nil {
				sp.ValIDs = genVals(r, len(sp.Keys))
			}
			name = c.Gens[0] + "/reopt"
		}
		if i > 0 && r.Chance(0.25) && len(c.Inputs[0].Keys) > 1 {
			// a perturbed copy of input 0: same key count, a few keys altered, so
			// that the two streams have (nearly) the same shape, depth and sizes -
			// residue that hides behind "the shape did not change" needs this.
			sp.Keys, sp.ValIDs = perturbKeys(r, c.Inputs[0].Keys), c.Inputs[0].ValIDs
			sp.Opt = c.Inputs[0].Opt
			if sp.ValIDs != nil && len(sp.ValIDs) != len(sp.Keys) {
				sp.ValIDs = genVals(r, len(sp.Keys))
			}
			name = c.Gens[0] + "/perturbed"
		}
		if i > 0 && r.Chance(0.12) && len(c.Inputs[0].Keys) > 2 {
			// an almost identical sibling of input 0: same keys, options and stream
			// length, ONE value (or one byte of one key) changed somewhere in the
			// middle. "The new stream looks like the one I already hold" (length,
			// head and tail, shape, counts all equal) must not be taken for "is".
			base := &c.Inputs[0]
			sp.Opt = base.Opt
			sp.Keys = base.Keys
			sp.ValIDs = nil
			if base.ValIDs != nil {
				sp.ValIDs = append([]int64{}, base.ValIDs...)
				j := len(sp.ValIDs)/4 + r.Intn(len(sp.ValIDs)/2+1)
				sp.ValIDs[j] ^= 1 << uint(r.Intn(7))
				name = c.Gens[0] + "/one-value-changed"
			} else {
				j := len(base.Keys)/4 + r.Intn(len(base.Keys)/2+1)
				if k := base.Keys[j]; len(k) > 0 {
					b := append([]byte{}, k...)
					b[len(b)-1] ^= 1 << uint(r.Intn(8))
					set := map[string]bool{}
					for _, kk := range base.Keys {
						set[string(kk)] = true
					}
					if !set[string(b)] {
						delete(set, string(k))
						set[string(b)] = true
						sp.Keys = sortUniq(set)
					}
				}
				name = c.Gens[0] + "/one-key-byte-changed"
			}
		}
		if i > 0 && r.Chance(0.15) {
			sp.Keys, sp.ValIDs = nil, nil // the empty trie as a stream
			name = "empty"
		}
		c.Inputs = append(c.Inputs, sp)
		c.Gens = append(c.Gens, name)
		c.PermSeeds = append(c.PermSeeds, r.U64(), r.U64())
		c.Queries = append(c.Queries, genQueries(r, sp.Keys, 30))
	}
	c.Start = r.PickS("fresh", "built", "loaded", "loaded")
	c.StartSrc = r.Intn(n)
	allNil := true
	for i := range c.Inputs {
		if c.Inputs[i].ValIDs != nil {
			allNil = false
		}
	}
	if allNil && r.Chance(0.35) {
		// the zero value as receiver (var st trie.SlimTrie, the proto.Message
		// idiom). It has no encoder, so it is only comparable with its source
		// when no stream carries values.
		c.Start = "zero"
	}
	hl := r.Range(1, 4)
	fx := loadFixtures()
	for i := 0; i < hl; i++ {
		st := C05Step{Src: r.Intn(n)}
		switch r.WeightedPick([]int{40, 25, 10, 10, 8, 7}) {
		case 0:
			st.Op = "unmarshal"
		case 1:
			st.Op = "protounmarshal"
		case 2:
			st.Op = "reset"
		case 3:
			st.Op = "legacy"
			if first.Enc != "i32" || len(fx) == 0 {
				st.Op = "unmarshal"
			} else {
				var cand []*Fixture
				for _, f := range fx {
					if len(f.Data) <= 120_000 || tier == "thorough" {
						cand = append(cand, f)
					}
				}
				st.Fixture = cand[r.Intn(len(cand))].Name
			}
		case 4:
			st.Op, st.CutPM = "failcut", r.Range(0, 999)
		case 5:
			st.Op = "failver"
		}
		c.History = append(c.History, st)
	}
	// make sure the last step is a checked load most of the time
	if last := &c.History[len(c.History)-1]; last.Op != "unmarshal" && last.Op != "protounmarshal" && r.Chance(0.8) {
		c.History = append(c.History, C05Step{Op: r.PickS("unmarshal", "protounmarshal"), Src: r.Intn(n)})
	}
	c.Twin = r.Chance(0.1)
	c.Interlude = r.Chance(0.3)
	c.IndexHome = r.Chance(0.3) || (first.Enc == "i64" && r.Chance(0.5))
	if c.IndexHome && first.Enc == "i64" && c.Start != "zero" && r.Chance(0.6) {
		// the instance is built by index.NewSlimIndex (default options, offsets)
		c.Start = "built"
		sp := &c.Inputs[c.StartSrc]
		sp.Opt = [4]int8{-1, -1, -1, -1}
		if sp.ValIDs == nil && len(sp.Keys) > 0 {
			sp.ValIDs = genVals(r, len(sp.Keys))
		}
	}
	return c
}

// perturbKeys returns a sorted, duplicate-free key list of (almost always) the
// same length as keys with roughly 5% of the keys altered in one byte, tail or
// length.
func perturbKeys(r *Rng, keys [][]byte) [][]byte {
	set := map[string]bool{}
	for _, k := range keys {
		set[string(k)] = true
	}
	nmut := 1 + len(keys)/20
	for m := 0; m < nmut; m++ {
		k := keys[r.Intn(len(keys))]
		if !set[string(k)] {
			continue
		}
		for tries := 0; tries < 8; tries++ {
			b := append([]byte{}, k...)
			switch r.Intn(4) {
			case 0:
				if len(b) > 0 {
					b[r.Intn(len(b))] ^= 1 << uint(r.Intn(8))
				}
			case 1:
				b = append(b, byte(r.Intn(256)))
			case 2:
				if len(b) > 0 {
					b = b[:len(b)-1]
				}
			case 3:
				if len(b) > 0 {
					b[len(b)-1] = byte(r.Intn(256))
				}
			}
			if !set[string(b)] {
				delete(set, string(k))
				set[string(b)] = true
				break
			}
		}
	}
	return sortUniq(set)
}

var poisonCache = map[string]*TrieSpec{}

// poisonSpec: large, very regular key sets whose inner nodes repeat the same
// few label bitmaps tens of thousands of times (every label count 2..10).
func poisonSpec(kind string) *TrieSpec {
	if s, ok := poisonCache[kind]; ok {
		return s
	}
	set := map[string]bool{}
	switch kind {
	case "decimal5":
		for i := 0; i < 100000; i++ {
			set[fmt.Sprintf("%05d", i)] = true
		}
	case "mixedbases":
		for b := 2; b <= 10; b++ {
			for i := 0; i < 12000; i++ {
				// i written in base b with digits '0'..: nodes with exactly b labels
				d := make([]byte, 0, 16)
				for x, k := i, 0; k < 14; k++ {
					d = append(d, byte('0'+x%b))
					x /= b
				}
				for l, r := 0, len(d)-1; l < r; l, r = l+1, r-1 {
					d[l], d[r] = d[r], d[l]
				}
				set[string(append([]byte{byte('a' + b)}, d...))] = true
			}
		}
	default:
		return nil
	}
	s := &TrieSpec{Keys: sortUniq(set), Enc: "i32", Opt: [4]int8{-1, -1, -1, -1}}
	poisonCache[kind] = s
	return s
}

// genC05Matrix: one key set, M = 12 inputs that differ in option combination,
// presence of values and emptiness (plus a single-key and a perturbed input),
// and a history on ONE instance that contains every ordered pair (i -> j) of
// them as consecutive checked loads, through both entry points, with a few
// Resets in between. Residue is a property of a PAIR (what the instance held,
// what it is given); random histories of length <= 4 hit a given pair class by
// luck, this covers the pair classes of a sample exhaustively.
func genC05Matrix(r *Rng) *C05Scn {
	c := &C05Scn{Chunk: 4096, Start: "fresh"}
	keys, name := genKeys(r, GenLimits{MaxKeys: 150})
	for len(keys) < 3 {
		keys, name = genKeys(r, GenLimits{MaxKeys: 150})
	}
	enc := r.PickS("i32", "i32", "str16", "u16", "structle", "userenc", "i64", "userraw")
	vals := make([]int64, len(keys))
	for i := range vals {
		vals[i] = int64(i / r.Range(1, 2))
	}
	add := func(sp TrieSpec, nm string) {
		sp.Enc = enc
		c.Inputs = append(c.Inputs, sp)
		c.Gens = append(c.Gens, nm)
		c.PermSeeds = append(c.PermSeeds, r.U64(), r.U64())
		c.Queries = append(c.Queries, genQueries(r, sp.Keys, 14))
	}
	const M = 12
	combos := r.Perm(32)
	for _, cb := range combos[:M-3] {
		sp := TrieSpec{Keys: keys}
		for b := 0; b < 4; b++ {
			sp.Opt[b] = int8(cb >> uint(b) & 1)
			if r.Chance(0.15) {
				sp.Opt[b] = -1
			}
		}
		if cb&16 != 0 {
			sp.ValIDs = vals
		}
		add(sp, name+"/matrix")
	}
	add(TrieSpec{Opt: genOpt(r)}, "empty")
	add(TrieSpec{Keys: keys[:1], ValIDs: vals[:1], Opt: genOpt(r)}, "single")
	pk := perturbKeys(r, keys)
	pv := vals
	if len(pk) != len(keys) {
		pv = nil
	}
	add(TrieSpec{Keys: pk, ValIDs: pv, Opt: c.Inputs[0].Opt}, name+"/perturbed")
	var pairs [][2]int
	for i := 0; i < M; i++ {
		for j := 0; j < M; j++ {
			pairs = append(pairs, [2]int{i, j})
		}
	}
	for _, pi := range r.Perm(len(pairs)) {
		p := pairs[pi]
		if r.Chance(0.08) {
			c.History = append(c.History, C05Step{Op: "reset"})
		}
		c.History = append(c.History, C05Step{Op: r.PickS("unmarshal", "unmarshal", "protounmarshal"), Src: p[0]})
		c.History = append(c.History, C05Step{Op: r.PickS("unmarshal", "unmarshal", "protounmarshal"), Src: p[1]})
	}
	c.Matrix = true
	c.Interlude = true
	return c
}

func (c *C05Scn) historyString() string {
	if c.Matrix {
		return fmt.Sprintf("matrix(%d inputs, %d steps)", len(c.Inputs), len(c.History))
	}
	var sb strings.Builder
	sb.WriteString(c.Start)
	for _, h := range c.History {
		sb.WriteString(">" + h.Op)
		if h.Op == "unmarshal" || h.Op == "protounmarshal" {
			fmt.Fprintf(&sb, "%d", h.Src)
		}
	}
	return sb.String()
}

// battery evaluates every kind of query on st and returns one canonical string.
func battery(st *trie.SlimTrie, qs [][]byte, enc string, hasVals, complete bool, y func()) string {
	var sb strings.Builder
	forgetIndexCopy(st) // (an index over st made earlier is a copy of what st held then)
	w := intWidth(enc, hasVals)
	for i, q := range qs {
		for _, k := range []string{"get", "getid", "rangeget", "search"} {
			u := Unit{Kind: k, Q: q}
			sb.WriteString(u.run(st, y))
			sb.WriteByte('|')
		}
		if w > 0 {
			u := Unit{Kind: map[int]string{1: "geti8", 2: "geti16", 4: "geti32", 8: "geti64"}[w], Q: q}
			sb.WriteString(u.run(st, y))
			sb.WriteByte('|')
		}
		if enc == "i64" && hasVals {
			// through index.SlimIndex (the object the instance lives in, if any)
			for _, k := range []string{"idxget", "idxrangeget"} {
				u := Unit{Kind: k, Q: q}
				sb.WriteString(u.run(st, y))
				sb.WriteByte('|')
			}
		}
		if complete || i%8 == 0 {
			wv := encFixed(enc) || i%4 == 0
			for _, u := range []Unit{
				{Kind: "scanfrom", Q: q, Incl: i%2 == 0, WithVal: wv, Limit: 4},
				{Kind: "scanfromto", Q: q, Incl: true, Q2: qs[(i+1)%len(qs)], Incl2: i%3 == 0, WithVal: false, Limit: 3},
				{Kind: "iter", Q: q, Incl: i%2 == 1, WithVal: wv && i%3 == 0, Limit: 3},
			} {
				u := u
				sb.WriteString(u.run(st, y))
				sb.WriteByte('|')
			}
		}
		sb.WriteByte('\n')
	}
	u := Unit{Kind: "stat"}
	sb.WriteString(u.run(st, y))
	return sb.String()
}

func firstDiffLine(a, b string) (string, string) {
	la, lb := strings.Split(a, "\n"), strings.Split(b, "\n")
	for i := 0; i < len(la) && i < len(lb); i++ {
		if la[i] != lb[i] {
			return fmt.Sprintf("query#%d: %s", i, clip(la[i], 300)), fmt.Sprintf("query#%d: %s", i, clip(lb[i], 300))
		}
	}
	return fmt.Sprintf("%d lines", len(la)), fmt.Sprintf("%d lines", len(lb))
}

// refLoadCap bounds reference loads (fresh instance, alone). Loading is a
// protobuf decode plus a walk over the levels; even legacy conversions of 10^5
// keys stay two orders of magnitude below this.
const refLoadCap = 30_000_000

type c05Probe struct {
	permCalls, permNonIdentity                         int64
	checkedLoads, loadsOverContent, remarshals, builds int64
	shape                                              []string
	failedLoads, legacyLoads, poisoned                 int64
	legacyChecked, legacyOverContent, legacyRoundTrips int64
	indexHomed, indexBuilt, interludes                 int64
	inconclusive                                       string
	diskChunks                                         int64
}

func buildWithPerm(sp *TrieSpec, seed uint64, pr *c05Probe) (st *trie.SlimTrie, err error) {
	if seed == 0 {
		xsimrt.Perm = nil
	} else {
		r := NewRng(seed)
		xsimrt.Perm = func(n int) []int {
			p := r.Perm(n)
			pr.permCalls++
			for i, x := range p {
				if i != x {
					pr.permNonIdentity++
					break
				}
			}
			return p
		}
	}
	defer func() { xsimrt.Perm = nil }()
	pr.builds++
	return sp.build()
}

// lifecycle runs the whole scenario once. y is the harness-level yield (nil
// when run outside the scheduler). It returns the list of observable outcomes
// (for the two-lifecycle comparison) and the first violation.
func (c *C05Scn) lifecycle(y func(), pr *c05Probe) (outs []string, viol *Violation) {
	fail := func(oracle, where, detail, exp, got string) {
		if viol == nil {
			viol = &Violation{Prop: "C05", Oracle: oracle, Where: where, Detail: detail, Expected: clip(exp, 400), Got: clip(got, 400)}
		}
	}
	yield := func() {
		if y != nil {
			y()
		}
	}
	// capCall bounds a call by a step budget when the lifecycle runs alone (under
	// the scheduler the hook belongs to the simulator and the solo run has
	// already judged termination).
	capCall := func(cap int64, f func()) int64 {
		if y != nil {
			f()
			return 0
		}
		n, _ := withStepCap(cap, f)
		return n
	}
	// refCall runs a REFERENCE execution under an absolute budget. A reference
	// that exhausts its budget says nothing: the run is abandoned as
	// inconclusive (never a verdict).
	const refBudget = 6_000_000_000
	refCall := func(f func()) (int64, bool) {
		if y != nil {
			f()
			return 0, true
		}
		n, capped := withStepCap(refBudget, f)
		if capped {
			pr.inconclusive = "reference_execution_exceeded_step_budget"
		}
		return n, !capped
	}
	n := len(c.Inputs)
	src := make([]*trie.SlimTrie, n)
	streams := make([][]byte, n)
	ok := make([]bool, n)
	refLoad := make([]int64, n)
	disk := newDisk()
	chunkRng := NewRng(c.PermSeeds[0] ^ 0xd15c)
	for i := range c.Inputs {
		sp := &c.Inputs[i]
		var t0 *trie.SlimTrie
		var err0 error
		buildSteps, okRef := refCall(func() { t0, err0 = buildWithPerm(sp, 0, pr) })
		if !okRef {
			return outs, nil
		}
		yield()
		var b0 []byte
		if err0 == nil {
			b0, err0 = safeMarshal(t0)
			if err0 == errAborted {
				return outs, nil
			}
			if err0 != nil {
				// a trie that was built has a serialised form: without one there
				// is no round trip at all
				fail("marshal-failed", "Marshal", fmt.Sprintf("input %d (%s): NewSlimTrie succeeded but Marshal() of the trie fails", i, sp.summary()), "<bytes>, nil", clip(err0.Error(), 200))
			}
		}
		for k := 0; k < 2; k++ {
			var tk *trie.SlimTrie
			var errk error
			capCall(loadCap(buildSteps), func() { tk, errk = buildWithPerm(sp, c.PermSeeds[2*i+k]|1, pr) })
			yield()
			var bk []byte
			if errk == nil {
				bk, errk = safeMarshal(tk)
			}
			if fmt.Sprint(err0) != fmt.Sprint(errk) {
				fail("build-nondeterministic", "build-outcome", fmt.Sprintf("input %d (%s): building twice from equal input under two map iteration orders gives different outcomes", i, sp.summary()), fmt.Sprint(err0), fmt.Sprint(errk))
			} else if !bytes.Equal(b0, bk) {
				fail("build-nondeterministic", "marshal-bytes", fmt.Sprintf("input %d (%s): building twice from equal input under two map iteration orders marshals to different bytes (first difference at offset %d)", i, sp.summary(), firstDiff(b0, bk)), digest(b0), digest(bk))
			}
		}
		if err0 != nil {
			outs = append(outs, fmt.Sprintf("input%d:build-failed:%v", i, err0))
			continue
		}
		ok[i], src[i], streams[i] = true, t0, b0
		pr.shape = append(pr.shape, featuresOf(b0).fingerprint())
		if sz := proto.Size(t0); sz != len(b0) {
			fail("size-mismatch", "proto.Size", fmt.Sprintf("input %d (%s): len(Marshal()) != proto.Size()", i, sp.summary()), fmt.Sprint(len(b0)), fmt.Sprint(sz))
		}
		if pb, err := proto.Marshal(t0); err != nil || !bytes.Equal(pb, b0) {
			fail("proto-marshal-differs", "proto.Marshal", fmt.Sprintf("input %d (%s): proto.Marshal(st) differs from st.Marshal()", i, sp.summary()), digest(b0), digest(pb))
		}
		if b1, err := safeMarshal(t0); err != nil || !bytes.Equal(b1, b0) {
			fail("marshal-unstable", "Marshal-twice", fmt.Sprintf("input %d (%s): marshalling the same instance twice gives different bytes", i, sp.summary()), digest(b0), digest(b1))
		}
		// reference: loading the stream into a fresh instance, alone (step count)
		if y == nil {
			f0 := fresh(sp.Enc)
			var e0 error
			var p0 string
			// a load cannot legitimately cost more than ten builds of the same trie
			freshCap := int64(refLoadCap)
			if 10*buildSteps > freshCap {
				freshCap = 10 * buildSteps
			}
			refLoad[i], _ = withStepCap(freshCap, func() { e0, p0 = loadVia(f0, "direct", append([]byte{}, b0...)) })
			if p0 == panStepCap {
				fail("load-does-not-return", "load-into-fresh", fmt.Sprintf("input %d (%s): loading Marshal() output into a fresh instance did not return within %d steps (building the trie took %d)", i, sp.summary(), freshCap, buildSteps), "", "")
			} else if e0 != nil || p0 != "" {
				fail("load-failed", "Unmarshal-into-fresh", fmt.Sprintf("input %d (%s): a stream produced by Marshal() does not load into a fresh instance: err=%v panic=%s", i, sp.summary(), e0, p0), "", "")
			}
		}
		// writer persists the stream on the simulated disk (fault-free here)
		disk.Write(fmt.Sprint("s", i), b0, func() int { return 1 + chunkRng.Intn(c.Chunk) }, -1)
		outs = append(outs, fmt.Sprintf("input%d:%s", i, digest(b0)))
		yield()
	}
	pr.diskChunks += disk.writes
	if viol == nil && c.Poison != "" && ok[0] && y == nil {
		if ps := poisonSpec(c.Poison); ps != nil {
			capCall(4_000_000_000, func() { ps.build() })
			pr.builds++
			var t1 *trie.SlimTrie
			var err1 error
			_, okRef := refCall(func() { t1, err1 = buildWithPerm(&c.Inputs[0], 0, pr) })
			if !okRef {
				return outs, nil
			}
			var b1 []byte
			if err1 == nil {
				b1, err1 = safeMarshal(t1)
			}
			pr.poisoned++
			if err1 != nil || !bytes.Equal(b1, streams[0]) {
				fail("build-depends-on-process-history", "marshal-bytes", fmt.Sprintf("input 0 (%s): built, then a large regular trie (%s) was built, then input 0 was built again from equal input: the two builds marshal to different bytes (first difference at offset %d)", c.Inputs[0].summary(), c.Poison, firstDiff(b1, streams[0])), digest(streams[0]), digest(b1))
			}
		}
	}
	if viol != nil {
		return outs, viol
	}
	enc := c.Inputs[0].Enc
	read := func(i int) []byte { return disk.Read(fmt.Sprint("s", i)) }

	// start state
	var inst *trie.SlimTrie
	holds := -2 // index of the input whose content the instance holds; -1 other content; -2 empty
	switch c.Start {
	case "built":
		if ok[c.StartSrc] {
			if t, err := buildWithPerm(&c.Inputs[c.StartSrc], 0, pr); err == nil {
				inst, holds = t, c.StartSrc
			}
		}
	case "loaded":
		if ok[c.StartSrc] {
			inst = fresh(enc)
			var err error
			var pan string
			capCall(tightLoadCap(refLoad[c.StartSrc]), func() { err, pan = loadVia(inst, "direct", read(c.StartSrc)) })
			if pan != "" && err == nil {
				err = fmt.Errorf("panic: %s", pan)
			}
			if err != nil {
				fail("load-failed", "Unmarshal", fmt.Sprintf("a stream produced by Marshal() does not load: %v", err), "", "")
				return outs, viol
			}
			holds = c.StartSrc
		}
	}
	if inst == nil {
		if c.Start == "zero" {
			inst = &trie.SlimTrie{}
		} else {
			inst = fresh(enc)
		}
	}
	if c.IndexHome && y == nil {
		homed := false
		if c.Start == "built" && holds >= 0 {
			// the library's other builder: index.NewSlimIndex (int64 offsets, default options)
			if si := c.Inputs[holds].buildIndex(); si != nil {
				inst, homed = adoptIndexHome(si), true
				pr.indexBuilt++
			}
		}
		if !homed {
			inst = newIndexHome(inst)
		}
		pr.indexHomed++
		if si := homeOf(inst); si != nil && holds >= 0 {
			// the index is read through before the history starts
			capCall(2_000_000, func() {
				for _, qb := range c.Queries[holds] {
					func() {
						defer func() { recover() }()
						si.Get(string(qb))
						si.RangeGet(string(qb))
					}()
				}
			})
		}
	}
	yield()

	firstWant := map[int]string{}
	interlude := func(k int) {
		if !c.Interlude || y != nil {
			return
		}
		ienc := enc
		if sib := siblingEnc(enc); sib != "" {
			ienc = sib
		}
		sp := TrieSpec{Enc: ienc, Opt: [4]int8{int8(k % 2), int8(k / 2 % 2), -1, int8(k / 4 % 2)}}
		for i := 0; i < 5; i++ {
			sp.Keys = append(sp.Keys, []byte(fmt.Sprintf("interlude%02d", i*3+k%3)))
			sp.ValIDs = append(sp.ValIDs, int64(i+k))
		}
		capCall(5_000_000, func() {
			defer func() { recover() }()
			t, err := sp.build()
			if err != nil {
				return
			}
			b, err := t.Marshal()
			if err != nil {
				return
			}
			o := fresh(ienc)
			if o.Unmarshal(b) == nil {
				o.Get("interlude03")
				o.Search("interlude04")
			}
		})
		pr.interludes++
	}
	interlude(0)
	for hi, h := range c.History {
		if viol != nil {
			break
		}
		if (hi+len(c.History))%3 == 0 {
			interlude(hi + 1)
		}
		step := fmt.Sprintf("history %s step %d (%s)", c.historyString(), hi, h.Op)
		switch h.Op {
		case "reset":
			if si := homeOf(inst); si != nil {
				si.Reset()
			} else {
				inst.Reset()
			}
			holds = -2
			outs = append(outs, "reset")
		case "legacy":
			f := fixture(h.Fixture)
			if f == nil {
				continue
			}
			var err error
			var pan string
			entry := []string{"direct", "proto", "index"}[(hi+len(c.History))%3]
			// reference first: the same archived bytes into a fresh instance, alone
			twin := fresh(enc)
			var terr error
			var tpan string
			loadSteps, okRef := refCall(func() { terr, tpan = loadVia(twin, "direct", append([]byte{}, f.Data...)) })
			if !okRef {
				return outs, nil
			}
			lcap := int64(refLoadCap)
			if terr == nil && tpan == "" && y == nil {
				lcap = tightLoadCap(loadSteps)
			}
			capCall(lcap, func() { err, pan = loadVia(inst, entry, append([]byte{}, f.Data...)) })
			pr.legacyLoads++
			outs = append(outs, fmt.Sprintf("legacy:%v:%s", err, pan))
			// (the zero value has no encoder and cannot decode the values every
			// archived stream carries: nothing to compare)
			if terr == nil && tpan == "" && enc == fixtureEnc && c.Start != "zero" {
				// The residue and round-trip clauses quantify over every loaded trie,
				// streams of older layouts included: the instance must answer as a fresh
				// instance given the same archived bytes (differential; whether those
				// answers are RIGHT is C06 and not judged here), marshal to the same
				// bytes, and that stream must round-trip.
				if pan == panStepCap {
					fail("load-does-not-return", "legacy-load-into-"+holdsKind(holds, -3), fmt.Sprintf("%s: loading the archived stream %s (entry %s) into an instance that held %s did not return within %d steps; into a fresh instance it takes %d", step, f.Name, entry, holdsStr(holds), lcap, loadSteps), "", "")
					break
				}
				if err != nil || pan != "" {
					fail("load-failed", "legacy-load-into-"+holdsKind(holds, -3), fmt.Sprintf("%s: the archived stream %s loads into a fresh instance but not (entry %s) into an instance that held %s: err=%v panic=%s", step, f.Name, entry, holdsStr(holds), err, pan), "", "")
					break
				}
				if v := c.checkLegacy(inst, twin, loadSteps, f, entry, holds, step, y, pr, refCall, capCall); v != nil {
					if v.Oracle == "" {
						return outs, nil // reference over budget: inconclusive
					}
					viol = v
					break
				}
			}
			holds = -1
		case "failcut", "failver":
			if !ok[h.Src] {
				continue
			}
			b := read(h.Src)
			if h.Op == "failcut" {
				b = b[:len(b)*h.CutPM/1000]
			} else {
				copy(b[:16], versionField("9.9.9"))
			}
			var err error
			var pan string
			fcap := int64(refLoadCap)
			if y == nil && refLoad[h.Src] > 0 {
				fcap = tightLoadCap(refLoad[h.Src]) // a rejected load cannot cost more than the complete one
			}
			capCall(fcap, func() { err, pan = loadVia(inst, "direct", b) })
			pr.failedLoads++
			outs = append(outs, fmt.Sprintf("%s:%v:%s", h.Op, err != nil, pan))
			// nothing is asserted here (C07 has its own check); the instance is
			// only prior state for what follows
			holds = -1
		case "unmarshal", "protounmarshal":
			if !ok[h.Src] {
				continue
			}
			i := h.Src
			entry := "direct"
			if h.Op == "protounmarshal" {
				entry = "proto"
			} else if (hi+h.Src+len(c.Inputs)+len(c.History))%3 == 2 {
				entry = "index" // through index.SlimIndex (embeds the trie)
			}
			buf := read(i)
			var err error
			var pan string
			if y == nil {
				withStepCap(tightLoadCap(refLoad[i]), func() { err, pan = loadVia(inst, entry, buf) })
			} else {
				err, pan = loadVia(inst, entry, buf)
			}
			if pan == panStepCap {
				fail("load-does-not-return", "load-into-"+holdsKind(holds, i), fmt.Sprintf("%s: loading Marshal() of input %d (%s) into an instance that held %s did not return within %d steps; into a fresh instance it takes %d", step, i, c.Inputs[i].summary(), holdsStr(holds), tightLoadCap(refLoad[i]), refLoad[i]), "", "")
				break
			}
			if err != nil || pan != "" {
				fail("load-failed", "Unmarshal", fmt.Sprintf("%s: a stream produced by Marshal() (%s) does not load into an instance that held %s: err=%v panic=%s", step, c.Inputs[i].summary(), holdsStr(holds), err, pan), "", "")
				break
			}
			pr.checkedLoads++
			over := holds != -2 && holds != i
			if over {
				pr.loadsOverContent++
			}
			yield()
			sp := &c.Inputs[i]
			var want, got string
			wantSteps, okRef := refCall(func() { want = battery(src[i], c.Queries[i], sp.Enc, sp.ValIDs != nil, sp.complete(), y) })
			if !okRef {
				return outs, nil
			}
			if w0, seen := firstWant[i]; !seen {
				firstWant[i] = want
			} else if w0 != want {
				e, g := firstDiffLine(w0, want)
				fail("source-answers-changed", "source-trie", fmt.Sprintf("%s: the source trie of input %d (%s), which only this comparison reads, answers differently from an earlier comparison in the same lifecycle: what other instances did in between (loads, resets, builds) changed it", step, i, sp.summary()), e, g)
				break
			}
			capCall(loadCap(wantSteps), func() { got = battery(inst, c.Queries[i], sp.Enc, sp.ValIDs != nil, sp.complete(), y) })
			if want != got {
				oracle, where := "roundtrip-answers-differ", "load-into-"+holdsKind(holds, i)
				if over {
					oracle = "residue"
				}
				e, g := firstDiffLine(want, got)
				fail(oracle, where, fmt.Sprintf("%s: after loading Marshal() of input %d (%s) into an instance that held %s, answers differ from the source trie", step, i, sp.summary(), holdsStr(holds)), e, g)
				break
			}
			rb, rerr := safeMarshal(inst)
			pr.remarshals++
			if rerr != nil || !bytes.Equal(rb, streams[i]) {
				oracle := "remarshal-differs"
				if over {
					oracle = "residue"
				}
				fail(oracle, "remarshal-after-load-into-"+holdsKind(holds, i), fmt.Sprintf("%s: re-marshalling the loaded instance does not reproduce the stream of input %d (%s); instance held %s before (first difference at offset %d)", step, i, sp.summary(), holdsStr(holds), firstDiff(rb, streams[i])), digest(streams[i]), digest(rb))
				break
			}
			if sz := proto.Size(inst); sz != len(streams[i]) {
				fail("size-mismatch", "proto.Size-loaded", fmt.Sprintf("%s: proto.Size of the loaded instance differs from the stream length", step), fmt.Sprint(len(streams[i])), fmt.Sprint(sz))
			}
			outs = append(outs, fmt.Sprintf("%s%d:%s", h.Op, i, digest([]byte(got))))
			holds = i
		}
		yield()
	}
	return outs, viol
}

// checkLegacy: inst has just loaded the archived stream f (successfully) over
// whatever it held. A Violation with an empty Oracle means "inconclusive".
func (c *C05Scn) checkLegacy(inst, twin *trie.SlimTrie, loadSteps int64, f *Fixture, entry string, holds int, step string, y func(), pr *c05Probe,
	refCall func(func()) (int64, bool), capCall func(int64, func()) int64) *Violation {
	mk := func(oracle, where, detail, exp, got string) *Violation {
		return &Violation{Prop: "C05", Oracle: oracle, Where: where, Detail: detail, Expected: clip(exp, 400), Got: clip(got, 400)}
	}
	inconclusive := &Violation{}
	// queries: a sample of the key set the archive was written from, mutations, absent strings
	qr := NewRng(c.PermSeeds[0] ^ hash64("legacy-queries", f.Name))
	var keys [][]byte
	if ks := keysetOf(f.KeySet); len(ks) > 0 {
		stride := 1 + len(ks)/400
		for i := qr.Intn(stride); i < len(ks); i += stride {
			keys = append(keys, []byte(ks[i]))
		}
	}
	qs := genQueries(qr, keys, 24)
	var want, got string
	wantSteps, okRef := refCall(func() { want = battery(twin, qs, fixtureEnc, true, f.complete(), y) })
	if !okRef {
		return inconclusive
	}
	capCall(loadCap(wantSteps), func() { got = battery(inst, qs, fixtureEnc, true, f.complete(), y) })
	pr.legacyChecked++
	over := holds != -2
	if over {
		pr.legacyOverContent++
	}
	if want != got {
		e, g := firstDiffLine(want, got)
		return mk("residue", "legacy-load-into-"+holdsKind(holds, -3), fmt.Sprintf("%s: after loading the archived stream %s (entry %s) into an instance that held %s, answers differ from a fresh instance given the same bytes", step, f.Name, entry, holdsStr(holds)), e, g)
	}
	tb, terr2 := safeMarshal(twin)
	if terr2 == errAborted {
		return inconclusive
	}
	rb, rerr := safeMarshal(inst)
	if terr2 != nil {
		if rerr == nil {
			return mk("residue", "remarshal-after-legacy-load", fmt.Sprintf("%s: Marshal() fails on a fresh instance that loaded %s but succeeds on the reused one", step, f.Name), fmt.Sprint(terr2), "<bytes>")
		}
		return nil
	}
	if rerr != nil || !bytes.Equal(rb, tb) {
		return mk("residue", "remarshal-after-legacy-load-into-"+holdsKind(holds, -3), fmt.Sprintf("%s: after loading the archived stream %s (entry %s) into an instance that held %s, Marshal() differs from Marshal() of a fresh instance given the same bytes (first difference at offset %d, err=%v)", step, f.Name, entry, holdsStr(holds), firstDiff(rb, tb), rerr), digest(tb), digest(rb))
	}
	if sz := proto.Size(inst); sz != len(rb) {
		return mk("size-mismatch", "proto.Size-legacy-loaded", fmt.Sprintf("%s: proto.Size of the instance that loaded %s differs from len(Marshal())", step, f.Name), fmt.Sprint(len(rb)), fmt.Sprint(sz))
	}
	// round trip of the legacy-loaded trie: Unmarshal(Marshal(t)) answers as t
	rt := fresh(fixtureEnc)
	var e2 error
	var p2 string
	capCall(tightLoadCap(10*loadSteps), func() { e2, p2 = loadVia(rt, "direct", append([]byte{}, rb...)) })
	if p2 == panStepCap {
		return mk("load-does-not-return", "load-of-remarshalled-legacy", fmt.Sprintf("%s: Marshal() of the trie loaded from %s does not load into a fresh instance within %d steps", step, f.Name, tightLoadCap(10*loadSteps)), "", "")
	}
	if e2 != nil || p2 != "" {
		return mk("load-failed", "Unmarshal-of-remarshalled-legacy", fmt.Sprintf("%s: Marshal() of the trie loaded from %s does not load into a fresh instance: err=%v panic=%s", step, f.Name, e2, p2), "", "")
	}
	var got2 string
	capCall(loadCap(wantSteps), func() { got2 = battery(rt, qs, fixtureEnc, true, f.complete(), y) })
	if want != got2 {
		e, g := firstDiffLine(want, got2)
		return mk("roundtrip-answers-differ", "roundtrip-of-legacy-loaded", fmt.Sprintf("%s: Unmarshal(Marshal(t)) answers differently from t, t loaded from the archived stream %s", step, f.Name), e, g)
	}
	rb2, rerr2 := safeMarshal(rt)
	if rerr2 != nil || !bytes.Equal(rb2, rb) {
		return mk("remarshal-differs", "remarshal-of-roundtripped-legacy", fmt.Sprintf("%s: re-marshalling Unmarshal(Marshal(t)) does not reproduce Marshal(t), t loaded from %s (first difference at offset %d)", step, f.Name, firstDiff(rb2, rb)), digest(rb), digest(rb2))
	}
	pr.legacyRoundTrips++
	return nil
}

func holdsStr(h int) string {
	switch h {
	case -2:
		return "nothing"
	case -1:
		return "other content (legacy or rejected load)"
	}
	return fmt.Sprintf("input %d", h)
}

func holdsKind(h, i int) string {
	switch {
	case h == -2:
		return "empty"
	case h == i:
		return "same"
	case h == -1:
		return "legacy-or-rejected"
	}
	return "other-input"
}

func firstDiff(a, b []byte) int {
	for i := 0; i < len(a) && i < len(b); i++ {
		if a[i] != b[i] {
			return i
		}
	}
	if len(a) < len(b) {
		return len(a)
	}
	return len(b)
}

func executeC05(scn *Scenario) *RunResult {
	c := scn.C05
	res := &RunResult{Counters: map[string]int64{}}
	pr := &c05Probe{}
	stop := countHook()
	outs, viol := c.lifecycle(nil, pr)
	res.Steps = stop()
	if pr.inconclusive != "" {
		res.Skipped = pr.inconclusive
		return res
	}

	if viol == nil && c.Twin && res.Steps < 4_000_000 {
		// two independent lifecycles on disjoint instances as two tasks under
		// the scheduler: package-level state would show as a difference from
		// the solo lifecycle.
		sim := newSim(scn.Strat, scn.Segs, res.Steps*2)
		sim.maxSteps = 60_000_000
		var outsT [2][]string
		var violT [2]*Violation
		for k := 0; k < 2; k++ {
			k := k
			sim.addTask(fmt.Sprintf("lifecycle%d", k), func(t *Task) {
				defer func() {
					if r := recover(); r != nil {
						if _, ok := r.(abortUnit); !ok {
							panic(r)
						}
					}
				}()
				sim.enterUnit(t, "lifecycle", 0)
				outsT[k], violT[k] = c.lifecycle(sim.yield0, &c05Probe{})
				sim.exitUnit(t)
			})
		}
		sim.run()
		res.Steps += sim.steps
		res.Segs = trimSegs(sim.segs)
		res.Counters["fault.preemption_inside_lifecycle"] += int64(sim.preemptIn)
		res.Counters["two_lifecycle_runs"]++
		res.Counters["strategy."+scn.Strat.Kind]++
		if !sim.stop {
			for k := 0; k < 2; k++ {
				if violT[k] != nil {
					viol = violT[k]
					viol.Detail = "(two lifecycles interleaved) " + viol.Detail
					break
				}
				if strings.Join(outsT[k], ";") != strings.Join(outs, ";") {
					viol = &Violation{Prop: "C05", Oracle: "lifecycle-interference", Where: "two-lifecycles",
						Detail:   "a lifecycle on its own instances gives different results when another lifecycle on disjoint instances is interleaved with it",
						Expected: clip(strings.Join(outs, ";"), 400), Got: clip(strings.Join(outsT[k], ";"), 400)}
					break
				}
			}
		} else {
			res.Counters["budget_stopped_runs"]++
		}
	}

	res.Viol = viol
	res.Counters["fault.map_order_permutation"] += pr.permCalls
	res.Counters["probe.map_permutation_not_identity"] += pr.permNonIdentity
	res.Counters["fault.failed_load_in_history"] += pr.failedLoads
	res.Counters["probe.legacy_load_in_history"] += pr.legacyLoads
	res.Counters["probe.checked_loads"] += pr.checkedLoads
	res.Counters["probe.legacy_loads_checked_against_fresh_twin"] += pr.legacyChecked
	res.Counters["probe.legacy_loads_checked_over_other_content"] += pr.legacyOverContent
	res.Counters["probe.legacy_loaded_tries_round_tripped"] += pr.legacyRoundTrips
	res.Counters["fault.large_regular_build_between_two_builds"] += pr.poisoned
	res.Counters["probe.checked_loads_over_other_content"] += pr.loadsOverContent
	res.Counters["builds"] += pr.builds
	res.Counters["fault.unrelated_build_and_load_between_steps"] += pr.interludes
	res.Counters["probe.instance_lives_in_slimindex"] += pr.indexHomed
	res.Counters["probe.instance_built_by_NewSlimIndex"] += pr.indexBuilt
	res.Counters["disk.chunks_written"] += pr.diskChunks
	for _, s := range pr.shape {
		res.Counters["shape."+s]++
	}
	res.Counters["start."+c.Start]++
	if c.Matrix {
		res.Counters["transition_matrix_scenarios"]++
	}
	res.NonTrivial = pr.permNonIdentity >= 2 || pr.loadsOverContent > 0 || pr.legacyOverContent > 0
	if res.NonTrivial {
		res.Distinct = []uint64{hash64(strings.Join(pr.shape, ","), c.historyString(), c.Start)}
	}
	var in []string
	for i := range c.Inputs {
		in = append(in, c.Gens[i]+" "+c.Inputs[i].summary())
	}
	res.Sample = map[string]interface{}{
		"run_seed": scn.RunSeed, "inputs": in, "history": c.historyString(), "perm_seeds": c.PermSeeds,
		"map_range_permutations_drawn": pr.permCalls, "checked_loads": pr.checkedLoads,
		"checked_loads_over_other_content": pr.loadsOverContent, "shapes": pr.shape, "two_lifecycles": c.Twin,
	}
	return res
}

func redC05(s *Scenario) []func(*Scenario) bool {
	var out []func(*Scenario) bool
	c := s.C05
	if c.Twin {
		out = append(out, func(x *Scenario) bool { x.C05.Twin = false; return true })
	}
	for i := range c.History {
		i := i
		out = append(out, func(x *Scenario) bool {
			h := x.C05.History
			if i >= len(h) || len(h) <= 1 {
				return false
			}
			x.C05.History = append(append([]C05Step{}, h[:i]...), h[i+1:]...)
			return true
		})
	}
	if c.Start != "fresh" {
		out = append(out, func(x *Scenario) bool { x.C05.Start = "fresh"; return true })
	}
	for i := range c.Inputs {
		i := i
		for _, f := range redKeys(func(x *Scenario) *TrieSpec { return &x.C05.Inputs[i] })(s) {
			out = append(out, f)
		}
		if len(c.Queries[i]) > 1 {
			out = append(out, func(x *Scenario) bool {
				q := x.C05.Queries[i]
				if len(q) <= 1 {
					return false
				}
				x.C05.Queries[i] = q[:len(q)/2]
				return true
			})
			out = append(out, func(x *Scenario) bool {
				q := x.C05.Queries[i]
				if len(q) <= 1 {
					return false
				}
				x.C05.Queries[i] = q[len(q)/2:]
				return true
			})
		}
	}
	return out
}
