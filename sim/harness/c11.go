package main

import (
	"bytes"
	"fmt"
	"os"

	"github.com/openacid/slim/trie"
)

// C11 — a SlimTrie is safely shareable between concurrent readers.
// One subject instance, N reader tasks under the seeded scheduler; each unit
// must return what it returns alone on a twin instance.

type TaskSpec struct {
	Units []Unit `json:"units"`
}

type C11Scn struct {
	Source  string     `json:"source"` // built | loaded | reloaded | legacy
	Spec    *TrieSpec  `json:"spec,omitempty"`
	Fixture string     `json:"fixture,omitempty"`
	Gen     string     `json:"gen,omitempty"`
	Tasks   []TaskSpec `json:"tasks"`
	// Trio: a focused scenario (three short tasks on two hot keys whose
	// ordinals collide modulo a power of two). If the solo profile contains
	// synchronising statements, ALL (task, site, visit) x {plain, second
	// preemption, double park} schedules are executed instead of a sample.
	Trio bool `json:"trio,omitempty"`
	// Bystander: one more task that never touches the shared instance: while
	// the readers run it loads the same stream into (or builds the same input
	// as) an instance of its own and reads that. Whatever the library shares
	// between instances - package-level scratch, pools, a worker goroutine -
	// is then in use by a writer-like activity next to the readers.
	Bystander string `json:"bystander,omitempty"` // "" | load | build | load-other | load-other-sibling
	// ColdStart: the concurrent phase runs BEFORE any reference execution. The
	// references normally come first (step caps, site profiles), and with them
	// everything the library initialises lazily at package level - a table built
	// on first use, a sync.Once, a slice grown to the largest trie seen - is
	// already in place when the readers start. With ColdStart the readers are
	// the first callers; outcomes are recorded and judged afterwards.
	ColdStart bool `json:"cold_start,omitempty"`
}

func intWidth(enc string, hasVals bool) int {
	if !hasVals {
		return 0
	}
	switch enc {
	case "i8":
		return 1
	case "i16", "u16":
		return 2
	case "i32", "u32":
		return 4
	case "i64", "u64", "int":
		return 8
	}
	return 0
}

type c11Limits struct {
	maxKeys, maxTasks, maxUnits int
	bigFixtures                 bool
}

// c11ForceCold is set by generate() for the first runs of every worker process.
var c11ForceCold bool

// c11Huge is set by generate() for the few runs of a tier that get a subject
// with more than 2^16 keys.
var c11Huge bool

func genHugeSpec(r *Rng) (TrieSpec, string) {
	n := r.PickI(65536, 65537, 70000, 100000, 131073)
	set := map[string]bool{}
	format := r.PickS("%06d", "k%07x", "u/%06d/profile")
	stride := r.PickI(1, 3)
	for i := 0; len(set) < n; i++ {
		set[fmt.Sprintf(format, i*stride)] = true
	}
	s := TrieSpec{Keys: sortUniq(set), Enc: r.PickS("i32", "u16", "i64", "str16"), Opt: genOpt(r)}
	if r.Chance(0.7) {
		s.Opt[2] = 1 // leaf prefixes present
	}
	if r.Chance(0.5) {
		// unique tails behind the branching digits: every leaf stores a prefix
		for i, k := range s.Keys {
			s.Keys[i] = append(k, []byte(fmt.Sprintf("/t%x", (i*2654435761)&0xfff))...)
		}
	}
	if r.Chance(0.75) {
		s.ValIDs = make([]int64, len(s.Keys))
		for i := range s.ValIDs {
			s.ValIDs[i] = int64(i)
		}
		s.Opt[0] = 0 // keep every key: leaf ordinal == key ordinal
	}
	return s, "huge"
}

func genC11(r *Rng, tier string) *C11Scn {
	huge := c11Huge
	lim := c11Limits{maxKeys: 300, maxTasks: 6, maxUnits: 10}
	if r.Chance(0.1) {
		lim = c11Limits{maxKeys: 3000, maxTasks: 12, maxUnits: 8}
	}
	hammer := r.Chance(0.06)
	if hammer {
		// few tasks, hundreds of cheap units each: while one task is parked the
		// others perform hundreds of operations (counters, generations and ring
		// indexes in the code under test wrap around); half of them on tries
		// big enough to have dozens of 257-bit nodes
		lim = c11Limits{maxKeys: r.PickI(300, 3000), maxTasks: 4, maxUnits: 400}
	}
	if tier == "thorough" {
		switch r.Intn(10) {
		case 0:
			lim = c11Limits{maxKeys: 20000, maxTasks: 8, maxUnits: 16, bigFixtures: true}
		case 1, 2:
			lim = c11Limits{maxKeys: 3000, maxTasks: 32, maxUnits: 24, bigFixtures: true}
		case 3:
			lim = c11Limits{maxKeys: 300, maxTasks: 32, maxUnits: 64}
		}
	}
	c := &C11Scn{}
	var keys [][]byte
	mix := UnitMix{}
	switch r.WeightedPick([]int{35, 30, 10, 25}) {
	case 0:
		c.Source = "built"
	case 1:
		c.Source = "loaded"
	case 2:
		c.Source = "reloaded"
	case 3:
		c.Source = "legacy"
	}
	if c.Source == "legacy" {
		fx := loadFixtures()
		var cand []*Fixture
		for _, f := range fx {
			if !lim.bigFixtures && len(f.Data) > 200_000 {
				continue
			}
			cand = append(cand, f)
		}
		if len(cand) == 0 {
			c.Source = "built"
		} else {
			f := cand[r.Intn(len(cand))]
			c.Fixture = f.Name
			c.Gen = "fixture"
			for _, k := range keysetOf(f.KeySet) {
				keys = append(keys, []byte(k))
			}
			mix.Complete = f.complete()
			mix.IntWidth = 4
			mix.Small = len(keys) <= 300
		}
	}
	if c.Source != "legacy" {
		if hammer && lim.maxKeys >= 3000 && r.Chance(0.6) {
			forceKeyKind = 11 // dozens of 257-bit nodes with different label sets
		}
		spec, name := genSpec(r, GenLimits{MaxKeys: lim.maxKeys})
		if forceKeyKind >= 0 {
			forceKeyKind = -1
			if r.Chance(0.7) {
				spec.Opt[3] = 1 // Complete: iterators and scans take part
			}
		}
		if r.Chance(0.01) {
			spec, name = genBigValueSpec(r)
		}
		if huge {
			// at and beyond 2^16 keys / leaves / nodes: "big trie" thresholds of
			// auxiliary structures. Loaded, so that every pass and twin costs one
			// Unmarshal of a cached stream instead of a build.
			spec, name = genHugeSpec(r)
			c.Source = r.PickS("loaded", "loaded", "reloaded")
		}
		if !huge && len(spec.Keys) >= 4 && r.Chance(0.07) {
			// an offset index over a record file: int64 offsets, adjacent keys
			// sharing a block offset (range index), read mostly through
			// index.SlimIndex and its DataReader
			spec.Enc = "i64"
			run := r.PickI(1, 2, 3, 8)
			spec.ValIDs = make([]int64, len(spec.Keys))
			for i := range spec.ValIDs {
				spec.ValIDs[i] = int64(i / run)
			}
			if r.Chance(0.7) {
				spec.Opt[0] = -1 // default de-duplication: one leaf per block
			}
			if r.Chance(0.6) {
				// built by index.NewSlimIndex itself (default options), the
				// subject lives inside the SlimIndex it returns
				spec.Opt = [4]int8{-1, -1, -1, -1}
				c.Source = "built"
			}
			if !hammer && r.Chance(0.5) {
				// hundreds of reads over hundreds of distinct records: whatever
				// the index keeps about recent reads is filled, evicted, reused
				hammer = true
				lim.maxTasks, lim.maxUnits = 4, 400
			}
			name += "/offset-index"
			mix.IdxHeavy = true
		}
		c.Spec, c.Gen = &spec, name
		keys = spec.Keys
		mix.Complete = spec.complete()
		mix.IntWidth = intWidth(spec.Enc, spec.ValIDs != nil)
		mix.Index = spec.Enc == "i64"
		mix.Small = len(keys) <= 300
	}
	if mix.Small {
		// String() is only offered on tries without table-compressed short
		// nodes and of moderate depth: on other tries today's String() is
		// defective (DESIGN 10, C19 is not claimed) and may not terminate, which
		// a differential oracle cannot turn into a verdict.
		mix.Small = false
		if b, _, err := c.stream(); err == nil {
			if b == nil {
				if st, err := c.Spec.build(); err == nil {
					b, _ = safeMarshal(st)
				}
			} else if c.Source == "legacy" {
				if inst, err := c.instances(1); err == nil {
					b, _ = safeMarshal(inst[0])
				} else {
					b = nil
				}
			}
			if b != nil {
				f := featuresOf(b)
				maxLen := 0
				for _, k := range keys {
					if len(k) > maxLen {
						maxLen = len(k)
					}
				}
				mix.Small = f.OK && f.ShortSize == 0 && maxLen <= 64
			}
		}
	}
	if hammer {
		// hundreds of units per task are meant to be CHEAP units: with keys of
		// kilobytes every scan outcome (and whatever a changed library buffers
		// per scan - a producer goroutine with a prefetch channel per call, all
		// of it kept alive by the channel table until the run ends) costs
		// hundreds of kilobytes, thousands of times
		for _, k := range keys {
			if len(k) > 256 {
				hammer = false
				lim.maxTasks, lim.maxUnits = 6, 10
				break
			}
		}
	}
	mix.Heavy = len(keys) <= 3000
	mix.ScanLimit = 6
	nq := 40
	if hammer {
		nq = 300 // more distinct nodes visited than any small cache holds
	}
	qs := genQueries(r, keys, nq)
	hot := len(keys) >= 8 && ((huge && r.Chance(0.85)) || (hammer && r.Chance(0.3)) || r.Chance(0.04))
	if hot {
		// skewed workload: a handful of hot INDEXED keys whose ordinals collide
		// modulo powers of two, queried again and again by every task (hits,
		// evictions and refills of the same few cache slots), plus a few other
		// queries. Short tasks of cheap units.
		base := r.Intn(len(keys))
		var hotq [][]byte
		for _, d := range []int{0, 1 << uint(r.PickI(6, 8, 10, 10, 12)), 2 << uint(r.PickI(6, 8, 10, 10)), 3 << 10, 1} {
			if i := (base + d) % len(keys); i >= 0 {
				hotq = append(hotq, keys[i])
			}
		}
		for len(hotq) < 24 {
			hotq = append(hotq, hotq[r.Intn(3)]) // weight towards the first three
		}
		qs = append(hotq, qs[:4]...)
		lim.maxTasks, lim.maxUnits = r.PickI(3, 3, 4), r.PickI(6, 12, 30)
		mix.Heavy, mix.Small = false, false
	}
	trioP := 0.5
	if huge {
		trioP = 0.75 // the few subjects beyond 2^16 keys of a tier mostly get the focused, exhaustively scheduled shape
	}
	if hot && r.Chance(trioP) {
		// focused trio: reader warms and re-reads K1, writer 1 touches the
		// colliding K2, writer 2 touches K1 again; same read API everywhere
		k1, k2 := qs[0], qs[1]
		kind := r.PickS("get", "get", "getid", "rangeget", "search")
		if mix.Complete && r.Chance(0.3) {
			kind = r.PickS("scanfrom", "iter")
		}
		mk := func(q []byte) Unit {
			u := Unit{Kind: kind, Q: q}
			if kind == "scanfrom" || kind == "iter" {
				u.Incl, u.Limit = true, 3
			}
			return u
		}
		c.Tasks = []TaskSpec{
			{Units: []Unit{mk(k1), mk(k1)}},
			{Units: []Unit{mk(k2)}},
			{Units: []Unit{mk(k1)}},
		}
		if r.Chance(0.3) {
			c.Tasks[1].Units = append(c.Tasks[1].Units, mk(k2))
		}
		c.Trio = true
		return c
	}
	nt := r.Range(2, lim.maxTasks)
	for i := 0; i < nt; i++ {
		nu := r.Range(1, lim.maxUnits)
		if hammer && !hot {
			nu = r.Range(lim.maxUnits/2, lim.maxUnits)
		}
		ts := TaskSpec{}
		for j := 0; j < nu; j++ {
			ts.Units = append(ts.Units, genUnit(r, qs, mix))
		}
		c.Tasks = append(c.Tasks, ts)
	}
	if r.Chance(0.12) && len(keys) <= 3000 {
		c.Bystander = "load"
		if c.Source == "built" {
			c.Bystander = "build"
		}
		if r.Chance(0.4) {
			c.Bystander = "load-other" // another content: nothing to compare it with, it only is there
			if c.Spec != nil && siblingEnc(c.Spec.Enc) != "" && r.Bool() {
				// ... decoded with the sibling of the subject's encoder (same Go
				// type, other byte order): encoders are values the library may share
				c.Bystander = "load-other-sibling"
			}
		}
	}
	c.ColdStart = r.Chance(0.12) || c11ForceCold
	if c.ColdStart {
		// lazily initialised state is raced for by callers of the SAME entry
		// point: every task starts with one unit of one kind (other queries)
		kinds := []string{"get", "rangeget", "search", "stat", "marshal", "protosize", "getversion"}
		if mix.Complete {
			kinds = append(kinds, "scanfrom", "scanfromto", "iter", "scanfrom", "iter")
		}
		if mix.Small {
			kinds = append(kinds, "string", "string", "string")
		}
		if mix.IntWidth > 0 {
			kinds = append(kinds, map[int]string{1: "geti8", 2: "geti16", 4: "geti32", 8: "geti64"}[mix.IntWidth])
		}
		if mix.Index {
			kinds = append(kinds, "idxget", "idxrangeget")
		}
		k := kinds[r.Intn(len(kinds))]
		for ti := range c.Tasks {
			u := Unit{Kind: k}
			switch k {
			case "stat", "string", "marshal", "protosize", "getversion":
			case "scanfrom", "iter":
				u.Q, u.Incl, u.WithVal, u.Limit = qs[r.Intn(len(qs))], r.Bool(), r.Bool(), r.Range(1, 8)
			case "scanfromto":
				u.Q, u.Q2, u.Incl, u.Incl2, u.Limit = qs[r.Intn(len(qs))], qs[r.Intn(len(qs))], true, r.Bool(), r.Range(1, 8)
			default:
				u.Q = qs[r.Intn(len(qs))]
			}
			c.Tasks[ti].Units = append([]Unit{u}, c.Tasks[ti].Units...)
		}
	}
	return c
}

// siblingEnc: an encoder kind over the same Go value type with the other byte order.
func siblingEnc(enc string) string {
	switch enc {
	case "structle":
		return "structbe"
	case "structbe":
		return "structle"
	}
	return ""
}

// stream returns the bytes a loaded/legacy subject is loaded from (nil for built).
func (c *C11Scn) stream() ([]byte, string, error) {
	switch c.Source {
	case "legacy":
		f := fixture(c.Fixture)
		if f == nil {
			return nil, "", fmt.Errorf("unknown fixture %q", c.Fixture)
		}
		return f.Data, fixtureEnc, nil
	case "loaded", "reloaded":
		// the stream of a spec is built once and reused by the many passes and
		// re-executions of a scenario (cache of two, keyed by content)
		key := specKey(c.Spec)
		ambSettle()
		for i := range streamCache {
			if streamCache[i].key == key && streamCache[i].b != nil {
				return streamCache[i].b, c.Spec.Enc, nil
			}
		}
		var b []byte
		var err error
		ambIsolated(func() {
			var src *trie.SlimTrie
			if src, err = c.Spec.build(); err == nil {
				b, err = src.Marshal()
			}
		})
		if err != nil {
			return nil, "", err
		}
		streamCache[streamCacheNext%len(streamCache)] = streamCacheEntry{key, b}
		streamCacheNext++
		return b, c.Spec.Enc, nil
	}
	return nil, "", nil
}

type streamCacheEntry struct {
	key uint64
	b   []byte
}

var (
	streamCache     [2]streamCacheEntry
	streamCacheNext int
)

func specKey(s *TrieSpec) uint64 {
	h := uint64(14695981039346656037)
	mixb := func(b []byte) {
		for _, c := range b {
			h = (h ^ uint64(c)) * fnvPrime
		}
		h = (h ^ 0xfe) * fnvPrime
	}
	for _, k := range s.Keys {
		mixb(k)
	}
	for _, v := range s.ValIDs {
		h = (h ^ uint64(v)) * fnvPrime
	}
	if s.ValIDs == nil {
		h = (h ^ 0xabc) * fnvPrime
	}
	mixb([]byte(s.Enc))
	mixb([]byte{byte(s.Opt[0] + 2), byte(s.Opt[1] + 2), byte(s.Opt[2] + 2), byte(s.Opt[3] + 2)})
	return h
}

var otherStream []byte

func priorStream() []byte {
	if otherStream == nil {
		sp := TrieSpec{Enc: "i32", Opt: [4]int8{-1, -1, -1, 1}}
		for i := 0; i < 40; i++ {
			sp.Keys = append(sp.Keys, []byte(fmt.Sprintf("prior%03d", i*3)))
			sp.ValIDs = append(sp.ValIDs, int64(i))
		}
		st, err := sp.build()
		if err != nil {
			panic(err)
		}
		otherStream, err = st.Marshal()
		if err != nil {
			panic(err)
		}
	}
	return otherStream
}

// instances creates n independent instances of the scenario's subject.
func (c *C11Scn) instances(n int) (out []*trie.SlimTrie, err error) {
	defer func() {
		if r := recover(); r != nil {
			out, err = nil, fmt.Errorf("panic: %v", r)
		}
	}()
	if c.Source == "built" {
		for i := 0; i < n; i++ {
			if si := c.Spec.buildIndex(); si != nil {
				// the library's other builder; the instance lives in the index
				out = append(out, adoptIndexHome(si))
				continue
			}
			st, err := c.Spec.build()
			if err != nil {
				return nil, err
			}
			out = append(out, st)
		}
		return out, nil
	}
	b, enc, err := c.stream()
	if err != nil {
		return nil, err
	}
	for i := 0; i < n; i++ {
		st := fresh(enc)
		if c.Source == "reloaded" {
			if err := st.Unmarshal(append([]byte{}, priorStream()...)); err != nil {
				return nil, err
			}
		}
		if err := st.Unmarshal(append([]byte{}, b...)); err != nil {
			return nil, err
		}
		out = append(out, st)
	}
	return out, nil
}

type unitRef struct {
	out   string
	steps int64
	sites map[int]int32 // solo site profile (only recorded when a sweep strategy needs it)
}

// soloSiteRec, when non-nil, receives the sites visited by the unit that is
// being run alone.
var soloSiteRec map[int]int32

// soloRefs runs every distinct unit alone on st with a counting hook.
func soloRefs(st *trie.SlimTrie, tasks []TaskSpec) (map[string]unitRef, int64) {
	refs := map[string]unitRef{}
	var total int64
	for ti := range tasks {
		for ui := range tasks[ti].Units {
			u := &tasks[ti].Units[ui]
			k := u.key()
			if r, ok := refs[k]; ok {
				total += r.steps
				continue
			}
			var prof map[int]int32
			if recordSoloSites {
				prof = map[int]int32{}
				soloSiteRec = prof
			}
			out, n := runSoloCapped(st, u)
			soloSiteRec = nil
			refs[k] = unitRef{out, n, prof}
			total += n
		}
	}
	return refs, total
}

// recordSoloSites is switched on by the executor for runs whose strategy needs
// the solo site profile.
var recordSoloSites bool

const soloCap = 400_000

// runSoloCapped runs u alone with a counting hook; a unit that does not finish
// within soloCap steps ALONE is unwound and later excluded from the run (it
// says nothing about interleavings).
func runSoloCapped(st *trie.SlimTrie, u *Unit) (string, int64) {
	var n int64
	capped := false
	rec := soloSiteRec
	setHook(func(site int) {
		n++
		liveTicks++
		if rec != nil {
			rec[site]++
		}
		if n > soloCap && !capped && locksHeld() == 0 {
			capped = true
			panic(abortUnit{"solo-cap"})
		}
	})
	out := u.run(st, nil)
	setHook(nil)
	ambBetweenCalls()
	return out, n
}

func soloCapped(out string) bool {
	return len(out) >= 14 && out[len(out)-14:] == "ABORT:solo-cap"
}

// unitCap: a unit that terminates alone in `solo` steps must terminate within
// this many of its own steps under any interleaving. The floor is generous on
// purpose: the cap exists to catch calls that never return, and a legitimate
// cache makes the reference (warm) much cheaper than the first (cold) call.
func unitCap(solo int64) int64 {
	c := solo * 50
	if c < 100000 {
		c = 100000
	}
	return c
}

// errAborted: the simulator unwound the call (step budget), not the code under test.
var errAborted = fmt.Errorf("call abandoned by the simulator")

func safeMarshal(st *trie.SlimTrie) (b []byte, err error) {
	defer func() {
		if r := recover(); r != nil {
			if _, ok := r.(abortUnit); ok {
				b, err = nil, errAborted
				return
			}
			b, err = nil, fmt.Errorf("panic: %v", r)
		}
	}()
	return st.Marshal()
}

// executeC11 runs the scenario once under its own strategy. If that pass is
// clean and the solo profile contains synchronising statements (the code under
// test has grown locks / atomics / pools in its read paths), up to 24 further
// passes follow, each a sweep that parks one task at one synchronisation-
// adjacent statement (every task x site x a few visits, PRNG-sampled), some
// with a second preemption, with rotating post-phase orders. The first failing
// pass becomes the scenario that is recorded.
func executeC11(scn *Scenario) *RunResult {
	res := executeC11Once(scn)
	if res.Viol != nil || res.Skipped != "" || res.Premise != "" || len(res.SweepCands) == 0 || scn.Strat.Kind == "replay" {
		return res
	}
	res.Counters["systematic_sweep_scenarios"]++
	for k, cand := range res.SweepCands {
		sc := scn.clone()
		sc.Strat = cand
		sc.PostOrder = k % 3
		r2 := executeC11Once(sc)
		res.Steps += r2.Steps
		res.Counters["systematic_sweep_passes"]++
		for key, v := range r2.Counters {
			if len(key) > 6 && (key[:6] == "probe." || key[:6] == "fault.") {
				res.Counters[key] += v
			}
		}
		if r2.Viol != nil {
			scn.Strat, scn.PostOrder = sc.Strat, sc.PostOrder
			res.Viol, res.Segs, res.EvHash = r2.Viol, r2.Segs, r2.EvHash
			break
		}
	}
	return res
}

// warmProfiles runs all tasks one after the other on st (every unit, in order,
// nothing de-duplicated) and returns the sites each task visited.
func warmProfiles(st *trie.SlimTrie, tasks []TaskSpec) []map[int]int32 {
	out := make([]map[int]int32, len(tasks))
	for ti := range tasks {
		out[ti] = map[int]int32{}
		for ui := range tasks[ti].Units {
			soloSiteRec = out[ti]
			runSoloCapped(st, &tasks[ti].Units[ui])
			soloSiteRec = nil
		}
	}
	return out
}

// sweepCandidates enumerates (task, synchronisation-adjacent site, visit)
// triples from the solo profile and returns a PRNG sample of them as resolved
// sweep strategies.
func sweepCandidates(seed uint64, tasks []TaskSpec, profiles []map[int]int32, max int, exhaustive bool) []Strategy {
	r := NewRng(seed ^ 0x5157)
	var all []Strategy
	for ti := range tasks {
		if len(tasks[ti].Units) == 0 || ti >= len(profiles) {
			continue
		}
		agg := map[int]int32{}
		for site, n := range profiles[ti] {
			if site > 0 && site < len(siteSync) && siteSync[site] {
				agg[site] += n
			}
		}
		sites := make([]int, 0, len(agg))
		for s := range agg {
			sites = append(sites, s)
		}
		sortInts(sites)
		for _, site := range sites {
			n := int(agg[site])
			visits := map[int]bool{0: true, n - 1: true, r.Intn(n): true, r.Intn(n): true}
			if exhaustive {
				for v := 0; v < n && v < 8; v++ {
					visits[v] = true
				}
			}
			vs := make([]int, 0, len(visits))
			for v := range visits {
				vs = append(vs, v)
			}
			sortInts(vs)
			for _, v := range vs {
				if exhaustive {
					base := Strategy{Kind: "sweep", Seed: r.U64(), Task: ti, Site: site, Skip: v, Resolved: true}
					all = append(all, base)
					for _, ag := range []int{1, 2, 3} {
						for _, fu := range []int{1, 0} {
							s2 := base
							s2.Again, s2.FirstUnits = ag, fu
							all = append(all, s2)
						}
					}
					s3 := base
					s3.Second = 1 + int(r.U64()%64)
					all = append(all, s3)
					continue
				}
				st := Strategy{Kind: "sweep", Seed: r.U64(), Task: ti, Site: site, Skip: v, Resolved: true}
				switch {
				case r.Chance(0.25):
					st.Second = 1 + int(r.U64()%uint64(1<<uint(r.Range(1, 12))))
				case r.Chance(0.4):
					st.Again, st.FirstUnits = r.PickI(1, 1, 2, 3, 5), r.PickI(1, 1, 2, 0)
				}
				all = append(all, st)
			}
		}
	}
	perm := r.Perm(len(all))
	var out []Strategy
	for _, i := range perm {
		if len(out) >= max {
			break
		}
		out = append(out, all[i])
	}
	return out
}

func executeC11Once(scn *Scenario) *RunResult {
	c := scn.C11
	res := &RunResult{Counters: map[string]int64{}}
	inst, err := c.instances(3)
	if err != nil {
		res.Skipped = "subject_unavailable"
		return res
	}
	subject, twinA, twinB := inst[0], inst[1], inst[2]

	// the solo site profile is always recorded for generated (not replayed)
	// runs: if it contains statements that synchronise, the code under test
	// has grown locks/atomics/pools and most runs are turned into sweeps that
	// park a task in the gaps between its critical sections (atomicity
	// violations are invisible to the race detector and need exactly that)
	cold := c.ColdStart
	generated := scn.Strat.Kind != "replay" && !scn.Strat.Resolved
	var refs map[string]unitRef
	var total int64
	var refBytes []byte
	var refErr error
	computeRefs := func() bool {
		recordSoloSites = generated && !cold
		refs, total = soloRefs(twinA, c.Tasks)
		recordSoloSites = false
		profiles := coldProfiles(c.Tasks, refs)
		if cold {
			profiles = nil
		}
		if generated && profilesHaveSync(profiles) {
			// The cold, de-duplicated solo profiles do not contain paths that are
			// only taken when a cache of the code under test is WARM (the hit path
			// of a second lookup of the same key). One more instance serves all
			// tasks sequentially, unit by unit, with site recording: per task the
			// larger of the two counts is kept; a site seen by any task is a
			// candidate for every task.
			if warm, err := c.instances(1); err == nil {
				wp := warmProfiles(warm[0], c.Tasks)
				union := map[int]bool{}
				for ti := range profiles {
					for site, n := range wp[ti] {
						if n > profiles[ti][site] {
							profiles[ti][site] = n
						}
					}
					for site := range profiles[ti] {
						if site > 0 && site < len(siteSync) && siteSync[site] {
							union[site] = true
						}
					}
				}
				for ti := range profiles {
					if len(c.Tasks[ti].Units) == 0 {
						continue
					}
					for site := range union {
						if profiles[ti][site] == 0 {
							profiles[ti][site] = 1
						}
					}
				}
			}
		}
		if !cold {
			adaptToSync(&scn.Strat, profiles)
			resolveSweep(&scn.Strat, c.Tasks, profiles)
			if generated {
				if c.Trio {
					res.SweepCands = sweepCandidates(scn.Strat.Seed, c.Tasks, profiles, 400, true)
				} else if c.Spec != nil && len(c.Spec.Keys) >= 65536 {
					// subjects beyond 2^16 keys are rare (16 per quick tier): when
					// the code under test synchronises in their read paths they get
					// the double-park and second-preemption variants of every
					// sampled (task, site, visit) as well
					res.SweepCands = sweepCandidates(scn.Strat.Seed, c.Tasks, profiles, 160, true)
				} else {
					res.SweepCands = sweepCandidates(scn.Strat.Seed, c.Tasks, profiles, 36, false)
				}
			}
		}
		refsB, _ := soloRefs(twinB, c.Tasks)
		for k, r := range refs {
			if soloCapped(refsB[k].out) || soloCapped(r.out) {
				// a reference execution ran into the absolute budget of a solo
				// run (where exactly it was cut, and whether the other twin stayed
				// just below the budget, depends on the ambient schedule when
				// the library uses goroutines: the cost of a call is not part of
				// its answer): the unit has no reference, it is excluded
				if !soloCapped(r.out) {
					r.out = r.out + "ABORT:solo-cap"
				}
				if !soloCapped(r.out) {
					panic("soloCapped does not recognise its own marker")
				}
				refs[k] = r
				continue
			}
			if refsB[k].out != r.out {
				if os.Getenv("SLIMSIM_DEBUG_PREMISE") != "" {
					fmt.Fprintf(os.Stderr, "PREMISE A: %s\nPREMISE B: %s\n", r.out, refsB[k].out)
				}
				res.Premise = fmt.Sprintf("twins disagree on %s: %q vs %q", k, clip(r.out, 80), clip(refsB[k].out, 80))
				return false
			}
		}
		refBytes, refErr = safeMarshal(twinA)
		featuresOf(refBytes).probes(res.Counters)
		return true
	}
	if !cold {
		if !computeRefs() {
			return res
		}
	} else {
		refs = map[string]unitRef{}
		total = 400_000
		if scn.Strat.Kind == "sweep" && !scn.Strat.Resolved {
			// no site profile yet: a sweep has no target
			scn.Strat.Kind, scn.Strat.P = "random", []float64{0.05, 0.2, 0.5}[scn.Strat.Seed%3]
		}
		res.Counters["cold_start_runs"]++
	}
	// capFor: the step cap of a unit under interleaving. Before the references
	// exist (cold start) it is a generous constant and hitting it says nothing.
	capFor := func(u *Unit) int64 {
		if cold {
			return 30_000_000
		}
		return unitCap(refs[u.key()].steps)
	}
	type pendingOut struct {
		ti, ui int
		u      *Unit
		out    string
	}
	var pending []pendingOut

	sim := newSim(scn.Strat, scn.Segs, total)
	var viol *Violation
	fail := func(oracle, where, detail, exp, got string) {
		if viol != nil {
			return
		}
		viol = &Violation{Prop: "C11", Oracle: oracle, Where: where, Detail: detail, Expected: clip(exp, 400), Got: clip(got, 400), Step: sim.steps}
		sim.stop, sim.stopWhy = true, "violation"
	}
	var capUnit *Unit
	var capUsed int64
	judging := !cold
	var check func(ti, ui int, u *Unit, out string)
	check = func(ti, ui int, u *Unit, out string) {
		if !judging {
			// cold start: recorded now, judged when the references exist
			// (appended by the task that holds the baton: one at a time)
			pending = append(pending, pendingOut{ti, ui, u, out})
			return
		}
		if sim.stop && viol != nil {
			return
		}
		ref := refs[u.key()]
		if cold && (soloCapped(ref.out) || hasSuffix(out, "ABORT:stepcap")) {
			return // no yardstick was available when the unit ran
		}
		if out == ref.out {
			return
		}
		oracle := "unit-diverged"
		if len(out) >= 13 && out[len(out)-13:] == "ABORT:stepcap" {
			oracle = "step-cap"
		} else if len(out) >= 14 && out[len(out)-14:] == "ABORT:deadlock" {
			oracle = "deadlock"
		} else if len(out) >= 12 && out[len(out)-12:] == "ABORT:budget" {
			return // run abandoned, not a verdict
		} else if len(out) >= 15 && out[len(out)-15:] == "ABORT:violation" {
			return
		}
		if oracle == "step-cap" {
			capUnit, capUsed = u, unitCap(ref.steps)
		}
		fail(oracle, "unit="+u.Kind, fmt.Sprintf("task %d unit %d %s under interleaving differs from the same call alone on a twin", ti, ui, u.short()), ref.out, out)
	}

	for ti := range c.Tasks {
		ti := ti
		units := c.Tasks[ti].Units
		sim.addTask(fmt.Sprintf("reader%d", ti), func(t *Task) {
			type liveIt struct {
				ui int
				it *iterState
			}
			var live []liveIt
			stepLive := func() {
				keep := live[:0]
				for _, li := range live {
					u := &units[li.ui]
					sim.enterUnit(t, "iter", capFor(u))
					li.it.step()
					sim.exitUnit(t)
					if li.it.left <= 0 {
						check(ti, li.ui, u, li.it.outcome())
					} else {
						keep = append(keep, li)
					}
				}
				live = keep
			}
			for ui := range units {
				if sim.stop {
					break
				}
				stepLive()
				sim.yield0()
				u := &units[ui]
				if soloCapped(refs[u.key()].out) {
					sim.probe("unit_excluded_solo_cap")
					continue
				}
				cap := capFor(u)
				if u.Kind == "iter" && u.Spread {
					sim.enterUnit(t, "iter", cap)
					it := u.open(subject)
					sim.exitUnit(t)
					if it.left <= 0 {
						check(ti, ui, u, it.outcome())
					} else {
						live = append(live, liveIt{ui, it})
						if len(live) >= 2 {
							sim.probe("two_live_iters_one_task")
						}
					}
					continue
				}
				sim.enterUnit(t, u.Kind, cap)
				out := u.run(subject, sim.yield0)
				sim.exitUnit(t)
				check(ti, ui, u, out)
			}
			for len(live) > 0 && !sim.stop {
				sim.yield0()
				stepLive()
			}
		})
	}
	if c.Bystander != "" && len(c.Tasks) > 0 {
		var bstream []byte
		benc := ""
		if c.Bystander == "load" {
			if b, e, err := c.stream(); err == nil && b != nil {
				bstream, benc = b, e
			}
		}
		other := c.Bystander == "load-other" || c.Bystander == "load-other-sibling"
		if other {
			benc = fixtureEnc
			if c.Spec != nil {
				benc = c.Spec.Enc
				if c.Bystander == "load-other-sibling" && siblingEnc(benc) != "" {
					benc = siblingEnc(benc)
				}
			}
			bstream = priorStreamFor(benc)
		}
		units := c.Tasks[0].Units
		bid := len(c.Tasks)
		sim.addTask("bystander", func(t *Task) {
			defer func() {
				if r := recover(); r != nil {
					if _, ok := r.(abortUnit); !ok {
						panic(r)
					}
				}
			}()
			var own *trie.SlimTrie
			sim.enterUnit(t, "bystander-"+c.Bystander, 0)
			switch {
			case c.Bystander == "build" && c.Spec != nil:
				if si := c.Spec.buildIndex(); si != nil {
					own = &si.SlimTrie
				} else if st, err := c.Spec.build(); err == nil {
					own = st
				}
			case bstream != nil:
				st := fresh(benc)
				if e, p := loadVia(st, "direct", append([]byte{}, bstream...)); e == nil && p == "" {
					own = st
				}
			}
			sim.exitUnit(t)
			sim.probe("bystander_" + c.Bystander)
			if own == nil {
				return
			}
			if other {
				// reads on its own content, unjudged
				for _, k := range priorKeys()[:6] {
					sim.yield0()
					sim.enterUnit(t, "get", 100000)
					own.Get(string(k))
					own.RangeGet(string(k) + "x")
					sim.exitUnit(t)
				}
				return
			}
			// it holds what the subject holds: its answers are the twin's
			for ui := range units {
				if sim.stop {
					break
				}
				sim.yield0()
				u := &units[ui]
				if soloCapped(refs[u.key()].out) || (u.Kind == "iter" && u.Spread) || u.Kind == "idxget" || u.Kind == "idxrangeget" {
					continue
				}
				sim.enterUnit(t, u.Kind, capFor(u))
				out := u.run(own, sim.yield0)
				sim.exitUnit(t)
				check(bid, ui, u, out)
			}
		})
	}
	indexOf(subject) // the index over the subject exists before anybody reads through it
	sim.run()

	res.Steps = sim.steps
	res.Segs = trimSegs(sim.segs)
	res.EvHash = sim.evHash
	res.SitePairs = sim.sitePairs
	res.Counters["switches"] += int64(sim.switches)
	res.Counters["fault.preemption_inside_unit"] += int64(sim.preemptIn)
	res.Counters["fault.unit_run_while_other_task_parked_mid_unit"] += int64(sim.overlaps)
	res.Counters["strategy."+scn.Strat.Kind]++
	res.Counters["source."+c.Source]++
	for k, v := range sim.overlapPairs {
		res.Counters["overlap."+k] += v
	}
	for k, v := range sim.probes {
		res.Counters["probe."+k] += v
	}
	if sim.stop && sim.stopWhy == "budget" {
		res.Counters["budget_stopped_runs"]++
	}
	if cold {
		// now the references (twins, alone), then the recorded outcomes
		if !computeRefs() {
			return res
		}
		judging = true
		wasStopped := sim.stop
		for _, p := range pending {
			if viol != nil {
				break
			}
			check(p.ti, p.ui, p.u, p.out)
		}
		if viol == nil {
			sim.stop = wasStopped
		}
	}
	if viol != nil && viol.Oracle == "step-cap" && capUnit != nil {
		// confirm against the COLD cost: the reference step count was taken on a
		// twin that had already served other units (a legitimate cache makes it
		// cheap); the same unit as the very first call on a fresh instance is the
		// honest yardstick. If the cap was too tight the run is inconclusive.
		if cold, err := c.instances(1); err == nil {
			_, n := runSoloCapped(cold[0], capUnit)
			if unitCap(n) > capUsed {
				viol = nil
				res.Skipped = "stepcap_inconclusive_cold_call_is_longer"
				return res
			}
		}
	}
	if sim.deadlock && viol == nil {
		viol = &Violation{Prop: "C11", Oracle: "deadlock", Where: "readers", Detail: "every live reader spins on a lock held by a parked reader: calls do not return under interleaving", Step: sim.steps}
	}

	// after the concurrent phase: no lasting corruption
	if viol == nil && !sim.stop {
		// Every unit once more, alone, on the shared instance. A wrong entry left
		// behind in a cache of the code under test lives only until another call
		// evicts or repairs it, so the ORDER of these re-runs matters: first the
		// units of the task a sweep preempted (the call that was interrupted is
		// the likeliest victim), then everything in reverse order, then
		// everything in order (each unit up to three times, never de-duplicated).
		var order, fwd, rev [][2]int
		for ti := range c.Tasks {
			for ui := range c.Tasks[ti].Units {
				fwd = append(fwd, [2]int{ti, ui})
			}
		}
		for i := len(fwd) - 1; i >= 0; i-- {
			rev = append(rev, fwd[i])
		}
		switch scn.PostOrder {
		case 1:
			order = append(append(order, rev...), fwd...)
		case 2:
			order = append(append(order, fwd...), rev...)
		default:
			if scn.Strat.Kind == "sweep" && scn.Strat.Task >= 0 && scn.Strat.Task < len(c.Tasks) {
				for ui := range c.Tasks[scn.Strat.Task].Units {
					order = append(order, [2]int{scn.Strat.Task, ui})
				}
			}
			order = append(append(order, rev...), fwd...)
		}
		for _, o := range order {
			u := &c.Tasks[o[0]].Units[o[1]]
			ref := refs[u.key()]
			if soloCapped(ref.out) {
				continue
			}
			out, _ := runSoloCapped(subject, u)
			if soloCapped(out) {
				continue // over the absolute budget of a solo run this time: says nothing
			}
			if out != ref.out {
				viol = &Violation{Prop: "C11", Oracle: "lasting-corruption", Where: "unit=" + u.Kind,
					Detail:   fmt.Sprintf("after the concurrent phase, %s alone on the shared instance differs from the twin", u.short()),
					Expected: clip(ref.out, 400), Got: clip(out, 400), Step: sim.steps}
				break
			}
		}
		b, err := safeMarshal(subject)
		if viol == nil && (!bytes.Equal(b, refBytes) || fmt.Sprint(err) != fmt.Sprint(refErr)) {
			viol = &Violation{Prop: "C11", Oracle: "marshal-changed", Where: "Marshal",
				Detail: "Marshal() of the shared instance after the concurrent phase differs from the twin's", Expected: digest(refBytes), Got: digest(b), Step: sim.steps}
		}
	}
	res.Viol = viol
	res.NonTrivial = sim.preemptIn > 0 || sim.overlaps > 0
	if res.NonTrivial {
		res.Distinct = []uint64{sim.schedHash}
	}
	nUnits := 0
	for _, t := range c.Tasks {
		nUnits += len(t.Units)
	}
	res.Counters["units"] += int64(nUnits)
	segShow := res.Segs
	if len(segShow) > 12 {
		segShow = segShow[:12]
	}
	src := c.Fixture
	if c.Spec != nil {
		src = c.Gen + " " + c.Spec.summary()
	}
	res.Sample = map[string]interface{}{
		"run_seed": scn.RunSeed, "source": c.Source, "world": src, "tasks": len(c.Tasks), "units": nUnits,
		"strategy": scn.Strat.String(), "steps": sim.steps, "context_switches": sim.switches,
		"preemptions_inside_overlapping_units": sim.preemptIn, "schedule_prefix": segShow,
		"first_task_units": unitNames(c.Tasks[0].Units),
	}
	return res
}

func unitNames(us []Unit) []string {
	var out []string
	for i := range us {
		if i >= 8 {
			out = append(out, "...")
			break
		}
		out = append(out, us[i].short())
	}
	return out
}
