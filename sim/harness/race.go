package main

import (
	"fmt"
	"strings"
	"sync"

	"github.com/openacid/slim/trie"
)

// The free-running -race lane (C11, C20). The workload is a function of the
// seed; the schedule is NOT controlled (this is monitoring, stated as such in
// the evidence). Hooks stay nil: every yield is a nil check of a variable
// written before the goroutines start. A race report halts the process with
// exit code 66 (GORACE=halt_on_error=1 exitcode=66); the driver turns the
// scenario file that was being executed into the replay file.

func executeRace(scn *Scenario) *RunResult {
	switch {
	case scn.C11 != nil:
		return raceC11(scn)
	case scn.C20 != nil:
		return raceC20(scn)
	}
	panic("race lane: unsupported scenario")
}

// runTaskFree executes a task's unit list on st without any simulator.
func runTaskFree(st *trie.SlimTrie, units []Unit, reps int) []string {
	outs := make([]string, len(units))
	for rep := 0; rep < reps; rep++ {
		type liveIt struct {
			ui int
			it *iterState
		}
		var live []liveIt
		stepLive := func() {
			keep := live[:0]
			for _, li := range live {
				li.it.step()
				if li.it.left <= 0 {
					outs[li.ui] = li.it.outcome()
				} else {
					keep = append(keep, li)
				}
			}
			live = keep
		}
		for ui := range units {
			stepLive()
			u := &units[ui]
			if u.Kind == "iter" && u.Spread {
				it := u.open(st)
				if it.left <= 0 {
					outs[ui] = it.outcome()
				} else {
					live = append(live, liveIt{ui, it})
				}
				continue
			}
			outs[ui] = u.run(st, nil)
		}
		for len(live) > 0 {
			stepLive()
		}
	}
	return outs
}

func raceC11(scn *Scenario) *RunResult {
	c := scn.C11
	res := &RunResult{Counters: map[string]int64{}}
	inst, err := c.instances(2)
	if err != nil {
		res.Skipped = "subject_unavailable"
		return res
	}
	subject, twin := inst[0], inst[1]
	retainCheck = true
	defer func() { retainCheck = false }()
	refs, _ := soloRefs(twin, c.Tasks)

	// a unit that does not terminate alone says nothing about concurrency: drop it
	tasks := make([]TaskSpec, len(c.Tasks))
	for ti := range c.Tasks {
		for _, u := range c.Tasks[ti].Units {
			if !soloCapped(refs[u.key()].out) {
				tasks[ti].Units = append(tasks[ti].Units, u)
			}
		}
	}
	c = &C11Scn{Source: c.Source, Spec: c.Spec, Fixture: c.Fixture, Tasks: tasks}

	outs := make([][]string, len(c.Tasks))
	var wg sync.WaitGroup
	start := make(chan struct{})
	indexOf(subject) // made here, by one goroutine; read-only for the others
	indexFrozen = true
	defer func() { indexFrozen = false }()
	for ti := range c.Tasks {
		ti := ti
		wg.Add(1)
		go func() {
			defer wg.Done()
			<-start
			outs[ti] = runTaskFree(subject, c.Tasks[ti].Units, 3)
		}()
	}
	close(start)
	wg.Wait()

	res.Counters["race.goroutines"] += int64(len(c.Tasks))
	nUnits := 0
	for ti := range c.Tasks {
		for ui := range c.Tasks[ti].Units {
			u := &c.Tasks[ti].Units[ui]
			nUnits++
			ref := refs[u.key()]
			if soloCapped(ref.out) {
				continue
			}
			if strings.Contains(outs[ti][ui], "RETAINED-KEY-OVERWRITTEN") && res.Viol == nil {
				res.Viol = &Violation{Prop: "C11", Oracle: "iterator-key-overwritten", Where: "unit=" + u.Kind,
					Detail:   fmt.Sprintf("race lane: goroutine %d unit %d %s: the key an iterator yielded last was overwritten after the iterator was dropped (collector and finalizers ran, another iterator was walked): iterators interfere through recycled memory", ti, ui, u.short()),
					Expected: "the key as it was yielded", Got: clip(outs[ti][ui], 400)}
			}
			if outs[ti][ui] != ref.out && res.Viol == nil {
				res.Viol = &Violation{Prop: "C11", Oracle: "unit-diverged", Where: "unit=" + u.Kind,
					Detail:   fmt.Sprintf("race lane: goroutine %d unit %d %s differs from the same call alone on a twin", ti, ui, u.short()),
					Expected: clip(ref.out, 400), Got: clip(outs[ti][ui], 400)}
			}
		}
	}
	res.Counters["race.units"] += int64(nUnits) * 3
	res.NonTrivial = true
	return res
}
