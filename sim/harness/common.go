package main

import (
	"encoding/json"
	"fmt"
	"os"
	"path/filepath"
	"sort"
)

type Violation struct {
	Prop     string `json:"property"`
	Oracle   string `json:"oracle"`
	Detail   string `json:"detail"`
	Expected string `json:"expected,omitempty"`
	Got      string `json:"got,omitempty"`
	Step     int64  `json:"step,omitempty"`
	// Where identifies the failing input / call site / history for the
	// known-findings file (stable under re-runs, specific to this failure).
	Where string `json:"where"`
}

func (v *Violation) String() string {
	return fmt.Sprintf("property=%s oracle=%s where=%s :: %s", v.Prop, v.Oracle, v.Where, v.Detail)
}

func clip(s string, n int) string {
	if len(s) > n {
		return s[:n] + fmt.Sprintf("...(+%d)", len(s)-n)
	}
	return s
}

// Scenario is the explicit description of one simulated run. Together with
// the tree under test it determines the execution completely; the replay file
// is a Scenario plus the violation it produced.
type Scenario struct {
	Prop    string   `json:"property"`
	Tier    string   `json:"tier"`
	Lane    string   `json:"lane"` // sim | race
	Seed    uint64   `json:"verif_seed"`
	Worker  int      `json:"worker"`
	Run     int      `json:"run"`
	RunSeed uint64   `json:"run_seed"`
	Strat   Strategy `json:"strategy"`
	Segs    []Seg    `json:"schedule,omitempty"`

	// PostOrder selects the order of the solo re-runs after the concurrent
	// phase (0: preempted task first, then reverse, then forward; 1: reverse
	// first; 2: forward first).
	PostOrder int `json:"post_order,omitempty"`

	C11 *C11Scn `json:"c11,omitempty"`
	C20 *C20Scn `json:"c20,omitempty"`
	C05 *C05Scn `json:"c05,omitempty"`
	C07 *C07Scn `json:"c07,omitempty"`
}

type ReplayFile struct {
	Violation *Violation `json:"violation"`
	Tree      string     `json:"tree_sha256"`
	Minimised bool       `json:"minimised"`
	MinInfo   string     `json:"minimisation,omitempty"`
	RaceLog   string     `json:"race_report,omitempty"`
	// History: the failure depends on package-level state of the code under test
	// that earlier runs of the same worker process left behind (e.g. a
	// sync.Pool): replay first re-executes runs 0..run-1 of that worker (they
	// are a pure function of verif_seed, worker and run index), then the
	// recorded scenario.
	History bool `json:"replay_worker_history_first,omitempty"`
	// FreshConfirmed: the file was re-executed in a fresh OS process by the
	// worker that wrote it and failed the same way.
	FreshConfirmed bool     `json:"confirmed_in_fresh_process,omitempty"`
	Scenario       Scenario `json:"scenario"`
}

func (s *Scenario) clone() *Scenario {
	b, err := json.Marshal(s)
	if err != nil {
		panic(err)
	}
	var c Scenario
	if err := json.Unmarshal(b, &c); err != nil {
		panic(err)
	}
	return &c
}

func writeJSON(path string, v interface{}) error {
	b, err := json.MarshalIndent(v, "", " ")
	if err != nil {
		return err
	}
	if err := os.MkdirAll(filepath.Dir(path), 0755); err != nil {
		return err
	}
	tmp := path + ".tmp"
	if err := os.WriteFile(tmp, b, 0644); err != nil {
		return err
	}
	return os.Rename(tmp, path)
}

// RunResult is what executing one scenario yields.
type RunResult struct {
	Viol       *Violation
	Skipped    string // non-empty: run not counted (e.g. both builds failed identically)
	Premise    string // non-empty: premise failed (twins disagree): exit 2, never a violation
	Steps      int64
	Evals      int64 // evaluations contributed (default 1)
	NonTrivial bool
	Distinct   []uint64 // hashes of distinct non-trivial cases this run contributed
	// GroupDistinct: for enumerating checks (C07) the number of distinct
	// non-trivial cases inside a group (stream, prior, entry); groups seen more
	// than once are counted once (max), which is conservative.
	GroupDistinct map[uint64]int64
	Segs          []Seg
	EvHash        uint64
	Counters      map[string]int64
	SitePairs     map[[2]int]struct{}
	Sample        interface{}
	SweepCands    []Strategy // systematic sweep candidates (only when the solo profile contains synchronising statements)
}

// Stats accumulates over the runs of one worker and is merged across workers.
type Stats struct {
	Prop        string           `json:"property"`
	Tier        string           `json:"tier"`
	Lane        string           `json:"lane"`
	Seed        uint64           `json:"seed"`
	Worker      int              `json:"worker"`
	Runs        int64            `json:"runs"`
	Evals       int64            `json:"evaluations"`
	NonTrivial  int64            `json:"nontrivial"`
	Distinct    []uint64         `json:"distinct_hashes"`
	Groups      map[string]int64 `json:"distinct_groups,omitempty"`
	Steps       int64            `json:"logical_steps"`
	Counters    map[string]int64 `json:"counters"`
	SitePairs   [][2]int         `json:"site_pairs"`
	Samples     []interface{}    `json:"samples"`
	Violations  []ViolationRef   `json:"violations"`
	Premise     []string         `json:"premise_failed"`
	Skipped     map[string]int64 `json:"skipped"`
	Truncated   bool             `json:"budget_truncated"`
	Watchdog    bool             `json:"watchdog_tripped,omitempty"`
	WallS       float64          `json:"wall_s"`
	EvHashes    []string         `json:"ev_hashes,omitempty"` // determinism self-test
	distinctSet map[uint64]struct{}
	pairSet     map[[2]int]struct{}
}

type ViolationRef struct {
	Replay string     `json:"replay"`
	Viol   *Violation `json:"violation"`
}

func newStats(prop, tier, lane string, seed uint64, worker int) *Stats {
	return &Stats{Prop: prop, Tier: tier, Lane: lane, Seed: seed, Worker: worker,
		Counters: map[string]int64{}, Skipped: map[string]int64{},
		distinctSet: map[uint64]struct{}{}, pairSet: map[[2]int]struct{}{}}
}

func (st *Stats) add(res *RunResult) {
	st.Runs++
	if res.Skipped != "" {
		st.Skipped[res.Skipped]++
		return
	}
	ev := res.Evals
	if ev == 0 {
		ev = 1
	}
	st.Evals += ev
	st.Steps += res.Steps
	if res.NonTrivial {
		st.NonTrivial++
	}
	for _, h := range res.Distinct {
		st.distinctSet[h] = struct{}{}
	}
	for g, n := range res.GroupDistinct {
		if st.Groups == nil {
			st.Groups = map[string]int64{}
		}
		k := fmt.Sprintf("%016x", g)
		if n > st.Groups[k] {
			st.Groups[k] = n
		}
	}
	for k, v := range res.Counters {
		st.Counters[k] += v
	}
	for p := range res.SitePairs {
		st.pairSet[p] = struct{}{}
	}
	if res.Premise != "" {
		st.Premise = append(st.Premise, res.Premise)
	}
	if res.Sample != nil && len(st.Samples) < 2 && res.NonTrivial {
		st.Samples = append(st.Samples, res.Sample)
	}
}

func (st *Stats) finish() {
	st.Distinct = st.Distinct[:0]
	for h := range st.distinctSet {
		st.Distinct = append(st.Distinct, h)
	}
	sort.Slice(st.Distinct, func(i, j int) bool { return st.Distinct[i] < st.Distinct[j] })
	st.SitePairs = st.SitePairs[:0]
	for p := range st.pairSet {
		st.SitePairs = append(st.SitePairs, p)
	}
	sort.Slice(st.SitePairs, func(i, j int) bool {
		if st.SitePairs[i][0] != st.SitePairs[j][0] {
			return st.SitePairs[i][0] < st.SitePairs[j][0]
		}
		return st.SitePairs[i][1] < st.SitePairs[j][1]
	})
}

func hash64(parts ...string) uint64 {
	h := uint64(14695981039346656037)
	for _, p := range parts {
		for i := 0; i < len(p); i++ {
			h = (h ^ uint64(p[i])) * fnvPrime
		}
		h = (h ^ 0xff) * fnvPrime
	}
	return h
}
