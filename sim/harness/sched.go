package main

import (
	"fmt"
	"os"
	"strconv"

	"github.com/openacid/slim/xsimrt"
)

// spinTransport selects how the baton is passed. The default (channels) is
// used by the simulated lane. In the CONTROLLED RACE LANE the harness package
// is compiled without race instrumentation and the baton is a plain variable
// polled with runtime.Gosched() under GOMAXPROCS=1: no channel, mutex or atomic
// is touched, so the race detector sees NO happens-before edge between tasks
// although they run strictly one at a time under the simulator's schedule. Two
// conflicting accesses of the code under test from different tasks that are
// not ordered by the code's OWN synchronisation are then reported by the race
// detector deterministically, whatever the schedule.
var spinTransport bool

// The simulator proper: tasks are real goroutines run one at a time; who runs
// next is only ever decided here, from the run's PRNG or from a recorded
// segment list. The Go scheduler merely executes the decision.

type Seg struct {
	T int `json:"t"`
	N int `json:"n"` // number of yields the task executes before it is parked (inside the N-th)
}

type Strategy struct {
	Kind string  `json:"kind"` // random | pct | rr | boundary | sweep | none | replay
	P    float64 `json:"p,omitempty"`
	D    int     `json:"d,omitempty"`
	Q    int     `json:"q,omitempty"`
	Seed uint64  `json:"seed,omitempty"`
	// sweep: exactly one preemption, of task Task at the (Skip+1)-th time it
	// reaches site Site; every other task then runs to completion before Task
	// resumes. The target is drawn UNIFORMLY OVER DISTINCT SITES of the task's
	// solo profile, so cold statements (a two-statement update on a rare path)
	// are preempted as often as hot loops, which a random walk never achieves.
	Task     int  `json:"task,omitempty"`
	Site     int  `json:"site,omitempty"`
	Skip     int  `json:"skip,omitempty"`
	Resolved bool `json:"resolved,omitempty"`
	// Second > 0: after Task is parked, the next task is parked as well after
	// Second of its yields (mid-use of whatever it acquired); Task then runs
	// to completion, then everybody else. Depth-2 schedules such as "A puts an
	// object back, B takes it and is using it, A resets it".
	Second int `json:"second,omitempty"`
	// Again > 0 (instead of Second): the parked task is parked TWICE. After the
	// first park one other task runs (FirstUnits of its units, 0 = all of
	// them), then Task executes Again more yields and is parked again, then
	// everybody else runs to completion, then Task. "Reader loads a tag; a
	// writer replaces the slot; reader loads the payload; another writer puts
	// the old tag back; reader re-validates the tag" needs exactly this.
	Again      int `json:"again,omitempty"`
	FirstUnits int `json:"first_units,omitempty"`
}

func (s Strategy) String() string {
	switch s.Kind {
	case "random":
		return fmt.Sprintf("random(p=%g)", s.P)
	case "pct":
		return fmt.Sprintf("pct(d=%d)", s.D)
	case "rr":
		return fmt.Sprintf("rr(q<=%d)", s.Q)
	case "sweep":
		return fmt.Sprintf("sweep(task=%d site=%s skip=%d second=%d again=%d/%d)", s.Task, siteName(s.Site), s.Skip, s.Second, s.Again, s.FirstUnits)
	}
	return s.Kind
}

func genStrategy(r *Rng) Strategy {
	st := Strategy{Seed: r.U64()}
	switch r.Intn(13) {
	case 0, 1, 2, 3:
		st.Kind = "random"
		st.P = []float64{0.002, 0.01, 0.05, 0.2, 0.5, 1}[r.Intn(6)]
	case 4, 5, 6:
		st.Kind = "pct"
		st.D = r.Range(1, 3)
	case 7, 8:
		st.Kind = "rr"
		st.Q = r.PickI(1, 2, 3, 5, 10, 40, 200)
	case 9:
		st.Kind = "boundary"
	case 10, 11, 12:
		st.Kind = "sweep" // target resolved after the solo profile is known
	}
	return st
}

type Task struct {
	id       int
	name     string
	body     func(t *Task)
	resume   chan struct{}
	slot     int        // transport identity (unique in the process)
	spin     bool       // parked by the spin protocol (dyn.go)
	blocked  bool       // its last park was a forced one: it waits for somebody else
	held     []heldLock // mutexes of the code under test it holds (xsimrt.LockHook)
	dyn      bool       // goroutine started by the code under test (dyn.go)
	daemon   bool       // ... that is older than the current run (started by a package initialiser, or still waiting for somebody when its run ended)
	initBorn bool       // ... by a package initialiser: never unwound
	victim   bool       // being unwound
	runaway  bool       // did not come to rest
	done     bool
	prio     int

	inUnit    bool
	unitKind  string
	unitSteps int64
	unitCap   int64
	lastSite  int
}

type Sim struct {
	strat  Strategy
	rng    *Rng
	tasks  []*Task
	cur    *Task
	doneCh chan struct{}
	static int // number of tasks created by the harness (the rest are dynamic)

	steps      int64
	totalSteps int64 // estimate of the run's total step count (for PCT change points)
	maxSteps   int64

	segs []Seg

	replay   []Seg
	rpos     int
	rleft    int
	draining bool

	// pct
	changeAt []int64
	lowPrio  int
	// rr
	quantum int
	// sweep
	fired      bool
	skipLeft   int
	forced     bool // the last park was a forced switch (lock not available)
	secondLeft int
	secondTask *Task
	secondDone bool
	phase      int // double-park sweeps: 1 first other task runs, 2 target advances, 3 everybody else
	firstOther *Task
	unitsSeen  int
	againLeft  int

	monitors []func(site int)

	stop    bool   // fail fast: unwind everything
	stopWhy string // budget | violation

	spin int // consecutive forced switches without ordinary progress

	// probes / measures
	evHash       uint64 // running hash over every (task, site) event
	schedHash    uint64 // hash over context switches only
	switches     int
	overlaps     int // units entered while another task was parked inside a unit
	preemptIn    int // preemptions strictly inside a unit while another task is parked inside a unit
	sitePairs    map[[2]int]struct{}
	overlapPairs map[string]int64
	siteFn       func(site int) string // site -> function name (for probes), may be nil
	probes       map[string]int64
	deadlock     bool
	dynSpawned   int
	foreign0     int64
}

const fnvPrime = 1099511628211

// traceTask (diagnostics, SLIMSIM_TRACE_TASK): print every yield of that task.
var traceTask = func() int {
	if v := os.Getenv("SLIMSIM_TRACE_TASK"); v != "" {
		n, _ := strconv.Atoi(v)
		return n
	}
	return -1
}()

func newSim(strat Strategy, replay []Seg, totalSteps int64) *Sim {
	s := &Sim{
		strat:        strat,
		rng:          NewRng(strat.Seed),
		totalSteps:   totalSteps,
		maxSteps:     5_000_000,
		evHash:       14695981039346656037,
		schedHash:    14695981039346656037,
		sitePairs:    map[[2]int]struct{}{},
		overlapPairs: map[string]int64{},
		probes:       map[string]int64{},
	}
	if strat.Kind == "replay" {
		s.replay = replay
	}
	s.skipLeft = strat.Skip
	return s
}

func (s *Sim) addTask(name string, body func(t *Task)) *Task {
	t := &Task{id: len(s.tasks), name: name, body: body, resume: make(chan struct{}), slot: newSlot(), spin: spinTransport}
	s.tasks = append(s.tasks, t)
	return t
}

// --- called from task goroutines (holding the baton) ------------------------

func (s *Sim) hook(site int) {
	t := s.cur
	t.blocked = false
	s.steps++
	liveTicks++
	s.spin = 0
	s.segs[len(s.segs)-1].N++
	s.evHash = (s.evHash ^ uint64(t.id+1)<<20 ^ uint64(site)) * fnvPrime
	t.lastSite = site
	if traceTask >= 0 && t.id == traceTask {
		fmt.Fprintf(os.Stderr, "TRACE %s %s\n", s.strat.Kind, siteName(site))
	}
	// A task is never unwound at a yield inside a critical section (len(t.held)
	// > 0): the lock, and what it protects, may live in package-level variables
	// and outlive the run. It is unwound at its first yield outside.
	if s.stop {
		if t.inUnit && len(t.held) == 0 {
			t.inUnit = false
			panic(abortUnit{s.stopWhy})
		}
		return
	}
	if s.steps > s.maxSteps {
		s.stop, s.stopWhy = true, "budget"
		if t.inUnit && len(t.held) == 0 {
			t.inUnit = false
			panic(abortUnit{"budget"})
		}
		return
	}
	if t.inUnit {
		t.unitSteps++
		if t.unitCap > 0 && t.unitSteps > t.unitCap && len(t.held) == 0 {
			t.inUnit = false
			panic(abortUnit{"stepcap"})
		}
	}
	for _, m := range s.monitors {
		m(site)
	}
	if s.decide(t, site) {
		s.park(t, site)
	}
}

// yield0 is the harness-level yield (between units, inside callbacks).
func (s *Sim) yield0() { s.hook(0) }

func (s *Sim) forceSwitch() {
	t := s.cur
	t.blocked = true
	s.steps++
	s.segs[len(s.segs)-1].N++
	s.evHash = (s.evHash ^ uint64(t.id+1)<<20 ^ 0xfffff) * fnvPrime
	s.spin++
	s.probe("forced_switch")
	if s.stop || s.steps > s.maxSteps || s.spin > 2000*(len(s.tasks)+1) {
		if !s.stop {
			s.stop = true
			if s.steps > s.maxSteps || xsimrt.ForeignWaits != s.foreign0 {
				// (somebody waits for a channel the simulator does not own, a
				// timer for example: not a deadlock, the run is abandoned)
				s.stopWhy = "budget"
			} else {
				s.stopWhy = "deadlock"
				s.deadlock = true
			}
		}
		if t.dyn {
			// a goroutine of the code under test is not unwound with the run
			// (it may live as long as the process): it stays parked until the
			// run is over; ambRetire decides afterwards
			s.park(t, -1)
			return
		}
		t.inUnit = false
		panic(abortUnit{s.stopWhy})
	}
	if s.strat.Kind == "pct" {
		s.lowPrio--
		t.prio = s.lowPrio
	}
	s.forced = true
	if s.strat.Kind == "replay" && !s.draining {
		s.rleft--
		if s.rleft > 0 {
			return // the recorded schedule keeps this task running: spin again
		}
	}
	s.park(t, -1)
}

func (s *Sim) decide(t *Task, site int) bool {
	switch s.strat.Kind {
	case "replay":
		if s.draining {
			return false
		}
		s.rleft--
		return s.rleft <= 0
	case "random":
		return s.rng.Chance(s.strat.P)
	case "pct":
		for len(s.changeAt) > 0 && s.steps >= s.changeAt[0] {
			s.changeAt = s.changeAt[1:]
			s.lowPrio--
			t.prio = s.lowPrio
		}
		for _, o := range s.tasks {
			if !o.done && o != t && o.prio > t.prio {
				return true
			}
		}
		return false
	case "rr":
		s.quantum--
		return s.quantum <= 0
	case "boundary":
		return site == 0 && s.rng.Bool()
	case "sweep":
		if s.fired && s.strat.Again > 0 {
			switch s.phase {
			case 1:
				if t == s.firstOther && s.strat.FirstUnits > 0 && site == 0 && !t.inUnit {
					s.unitsSeen++
					if s.unitsSeen > s.strat.FirstUnits {
						s.phase = 2
						return true
					}
				}
			case 2:
				if t.id == s.strat.Task {
					s.againLeft--
					if s.againLeft <= 0 {
						s.phase = 3
						s.probe("sweep_again_fired")
						return true
					}
				}
			}
			return false
		}
		if s.fired && !s.secondDone && s.strat.Second > 0 && t.id != s.strat.Task {
			if s.secondTask == nil {
				s.secondTask, s.secondLeft = t, s.strat.Second
			}
			if t == s.secondTask {
				s.secondLeft--
				if s.secondLeft <= 0 {
					s.secondDone = true
					s.probe("sweep_second_fired")
					return true
				}
			}
			return false
		}
		if !s.fired && t.id == s.strat.Task && site == s.strat.Site && site > 0 {
			if s.skipLeft <= 0 {
				s.fired = true
				s.phase, s.againLeft = 1, s.strat.Again
				s.probe("sweep_fired")
				if !spinTransport {
					s.sitePairs[[2]int{site, -1000}] = struct{}{}
				}
				return true
			}
			s.skipLeft--
		}
		return false
	}
	return false
}

func (s *Sim) park(t *Task, site int) {
	if t.inUnit && site != 0 {
		for _, o := range s.tasks {
			if o != t && !o.done && o.inUnit {
				s.preemptIn++
				break
			}
		}
	}
	transportPark(t)
}

// --- scheduler loop (main goroutine) ----------------------------------------

func (s *Sim) live() []*Task {
	var l []*Task
	for _, t := range s.tasks {
		if !t.done {
			l = append(l, t)
		}
	}
	return l
}

func (s *Sim) pickNext() *Task {
	live := s.live()
	if len(live) == 0 {
		return nil
	}
	if s.stop && s.static > 0 {
		// the run is over (verdict, budget, deadlock): the harness' own tasks
		// unwind one after the other; goroutines of the code under test stay
		// parked (a strategy might pick a parked one for ever)
		for _, t := range s.tasks[:s.static] {
			if !t.done {
				return t
			}
		}
	}
	switch s.strat.Kind {
	case "replay":
		for !s.draining {
			if s.rpos >= len(s.replay) {
				s.draining = true
				break
			}
			seg := s.replay[s.rpos]
			s.rpos++
			if seg.T >= 0 && seg.T < len(s.tasks) && !s.tasks[seg.T].done && seg.N > 0 {
				s.rleft = seg.N
				return s.tasks[seg.T]
			}
		}
		// drain: next live task cyclically after cur
		return s.cyclicAfter(live)
	case "pct":
		best := live[0]
		for _, t := range live {
			if t.prio > best.prio {
				best = t
			}
		}
		return best
	case "rr":
		s.quantum = 1 + s.rng.Intn(s.strat.Q)
		return s.cyclicAfter(live)
	case "none":
		if s.forced {
			s.forced = false
			return s.cyclicAfter(live)
		}
		return live[0]
	case "sweep":
		tgt := s.strat.Task
		if s.forced {
			// the task that just ran could not take a lock: let every other
			// live task (including the parked target, which may hold it) run
			s.forced = false
			return s.cyclicAfter(live)
		}
		if !s.fired {
			if tgt >= 0 && tgt < len(s.tasks) && !s.tasks[tgt].done {
				return s.tasks[tgt]
			}
			return live[0]
		}
		if s.strat.Again > 0 {
			if s.phase == 1 {
				if s.firstOther == nil {
					for _, t := range live {
						if t.id != tgt {
							s.firstOther = t
							break
						}
					}
				}
				if s.firstOther == nil {
					s.phase = 3
				} else if s.firstOther.done {
					s.phase = 2
				} else {
					return s.firstOther
				}
			}
			if s.phase == 2 {
				if tgt >= 0 && tgt < len(s.tasks) && !s.tasks[tgt].done {
					return s.tasks[tgt]
				}
				s.phase = 3
			}
		}
		if s.strat.Second > 0 && s.secondDone && !s.tasks[tgt].done {
			// both parked: the first one resumes and runs to completion
			return s.tasks[tgt]
		}
		if s.strat.Second > 0 && !s.secondDone && s.secondTask != nil && s.secondTask.done {
			s.secondDone = true // it finished before its second preemption point
		}
		for _, t := range live {
			if t.id != tgt {
				return t
			}
		}
		return live[0]
	}
	// random, boundary
	if len(live) > 1 && s.cur != nil && !s.cur.done {
		k := s.rng.Intn(len(live) - 1)
		for _, t := range live {
			if t == s.cur {
				continue
			}
			if k == 0 {
				return t
			}
			k--
		}
	}
	return live[s.rng.Intn(len(live))]
}

func (s *Sim) cyclicAfter(live []*Task) *Task {
	if s.cur == nil {
		return live[0]
	}
	for _, t := range live {
		if t.id > s.cur.id {
			return t
		}
	}
	return live[0]
}

func (s *Sim) run() {
	s.static = len(s.tasks)
	// children of earlier ambient calls (e.g. a background goroutine started by
	// the load of the subject) become tasks of this run; nothing of an earlier
	// run's bookkeeping comes with them
	for _, k := range amb.kids {
		k.id = len(s.tasks)
		k.prio, k.inUnit, k.unitKind, k.unitSteps, k.unitCap, k.lastSite = 0, false, "", 0, 0, 0
		s.tasks = append(s.tasks, k)
		s.probe("adopted_goroutine")
	}
	amb.kids = nil
	if s.strat.Kind == "pct" {
		perm := s.rng.Perm(len(s.tasks))
		for i, t := range s.tasks {
			t.prio = perm[i] + 1
		}
		s.lowPrio = 0
		total := s.totalSteps
		if total < 2 {
			total = 2
		}
		for i := 0; i < s.strat.D; i++ {
			s.changeAt = append(s.changeAt, 1+int64(s.rng.U64()%uint64(total)))
		}
		sortInt64(s.changeAt)
	}
	if spinTransport {
		s.doneCh = make(chan struct{}, s.static+1)
		nStatic := s.static
		defer func() {
			// hand-off of everything the tasks wrote (instances loaded by
			// loader tasks, outcomes) to the main goroutine
			for i := 0; i < nStatic; i++ {
				<-s.doneCh
			}
		}()
	}
	for _, t := range s.tasks[:s.static] {
		t := t
		go func() {
			transportAwaitFirst(t)
			t.body(t)
			t.done = true
			t.inUnit = false
			releaseHeld(&t.held)
			// a segment that ends because the task finished is recorded one
			// yield longer than executed, so that replay never parks the task
			// inside its last yield (which would delay the code after it).
			s.segs[len(s.segs)-1].N++
			if spinTransport {
				// the only visible synchronisation of the lane: task end ->
				// scheduler, one buffered slot per task (no edge between tasks)
				s.doneCh <- struct{}{}
			}
			transportEnd(t)
		}()
	}
	prevGo, prevFS := xsimrt.GoHook, xsimrt.ForceSwitch
	curSim = s
	s.foreign0 = xsimrt.ForeignWaits
	xsimrt.Hook = s.hook
	xsimrt.ForceSwitch = s.forceSwitch
	if amb.on {
		xsimrt.GoHook = s.goDyn
	}
	defer func() {
		curSim = nil
		xsimrt.GoHook, xsimrt.ForceSwitch = prevGo, prevFS
		// dynamic tasks that outlive the run go (back) to the ambient scheduler
		for _, t := range s.tasks[s.static:] {
			if !t.done {
				amb.kids = append(amb.kids, t)
			}
		}
		ambRefreshHook()
	}()
	for {
		prev := s.cur
		t := s.pickNext()
		if t == nil || s.staticDone() {
			return
		}
		if prev != nil && prev != t {
			s.switches++
			s.schedHash = (s.schedHash ^ uint64(prev.id+1)<<40 ^ uint64(prev.lastSite+2)<<8 ^ uint64(t.id+1)) * fnvPrime
			s.schedHash = (s.schedHash ^ hashStr(prev.unitKind)) * fnvPrime
			if !prev.done && prev.inUnit && !spinTransport {
				if len(s.sitePairs) < 200000 {
					s.sitePairs[[2]int{prev.lastSite, t.lastSite}] = struct{}{}
				}
			}
		}
		s.cur = t
		s.segs = append(s.segs, Seg{T: t.id})
		transportResume(t)
	}
}

func (s *Sim) staticDone() bool {
	for _, t := range s.tasks[:s.static] {
		if !t.done {
			return false
		}
	}
	return true
}

// goDyn is xsimrt.GoHook while the run executes: the new goroutine is one more
// task (called in task context, holding the baton).
func (s *Sim) goDyn(body func()) {
	t := &Task{id: len(s.tasks), name: "dyn", dyn: true, slot: newSlot(), resume: make(chan struct{}), spin: spinTransport}
	if s.strat.Kind == "pct" {
		t.prio = 1 + s.rng.Intn(len(s.tasks)+1)
	}
	s.tasks = append(s.tasks, t)
	s.dynSpawned++
	amb.spawned++
	noteSpawn()
	startDyn(t, body)
}

// noteOverlap is called when task t enters a unit: which unit kinds are other
// tasks parked in the middle of right now?
func (s *Sim) noteOverlap(t *Task, kind string) {
	for _, o := range s.tasks {
		if o != t && !o.done && o.inUnit {
			if !spinTransport { // no Go maps shared between tasks in the controlled race lane (map ops are race-annotated inside the runtime)
				s.overlapPairs[o.unitKind+"|"+kind]++
			}
			s.overlaps++
		}
	}
}

// probe bumps a named probe counter (skipped in the controlled race lane).
func (s *Sim) probe(name string) {
	if !spinTransport {
		s.probes[name]++
	}
}

func (s *Sim) enterUnit(t *Task, kind string, cap int64) {
	s.noteOverlap(t, kind)
	t.inUnit, t.unitKind, t.unitSteps, t.unitCap = true, kind, 0, cap
}

func (s *Sim) exitUnit(t *Task) { t.inUnit = false }

func hashStr(s string) uint64 {
	h := uint64(14695981039346656037)
	for i := 0; i < len(s); i++ {
		h = (h ^ uint64(s[i])) * fnvPrime
	}
	return h
}

func sortInt64(a []int64) {
	for i := 1; i < len(a); i++ {
		for j := i; j > 0 && a[j] < a[j-1]; j-- {
			a[j], a[j-1] = a[j-1], a[j]
		}
	}
}

// trimSegs drops empty segments and merges neighbours of the same task.
func trimSegs(in []Seg) []Seg {
	var out []Seg
	for _, s := range in {
		if s.N <= 0 {
			continue
		}
		if len(out) > 0 && out[len(out)-1].T == s.T {
			out[len(out)-1].N += s.N
			continue
		}
		out = append(out, s)
	}
	return out
}

// countHook installs a counting, never-preempting hook and returns a func that
// uninstalls it and reports the count.
func countHook() func() int64 {
	var n int64
	setHook(func(int) { n++; liveTicks++ })
	return func() int64 {
		setHook(nil)
		return n
	}
}

// withStepCap runs f with a hook that counts yields (chaining to the hook that
// was installed before) and unwinds f with abortUnit{"stepcap"} once more than
// cap yields were executed. f must recover the abortUnit itself (loadVia and
// Unit.run do). Used for calls that must terminate because the same call
// terminates in a known number of steps on a reference instance.
func withStepCap(cap int64, f func()) (n int64, capped bool) {
	prev := getHook()
	setHook(func(site int) {
		n++
		liveTicks++
		if prev != nil {
			prev(site)
		}
		if n > cap && locksHeld() == 0 {
			// sticky: once the budget is gone every further yield unwinds its
			// caller, so a sequence of calls ends quickly
			capped = true
			panic(abortUnit{"stepcap"})
		}
	})
	defer func() {
		setHook(prev)
		if prev == nil {
			if curSim == nil && amb.cur == nil {
				releaseHeld(&mainHeld) // (the call was unwound while it was blocked)
			}
			ambBetweenCalls()
		}
	}()
	f()
	return
}

func loadCap(ref int64) int64 {
	c := ref * 50
	if c < 200000 {
		c = 200000
	}
	return c
}

// tightLoadCap bounds a LOAD by the cost of the reference load of the same
// bytes (fresh instance, alone, executed EARLIER in the same process, so that
// any lazily built package-level table was paid for by the reference). Loads
// have no warm/cold asymmetry in favour of the reference, and a load that runs
// away typically allocates at every step: 50x the cost of a 10^5-key load is
// gigabytes. 8x; the floor of 3 000 000 leaves room for work proportional to
// what the instance held BEFORE (releasing or clearing old content), which the
// reference does not pay.
func tightLoadCap(ref int64) int64 {
	c := ref * 8
	if c < 3000000 {
		c = 3000000
	}
	return c
}

// adaptToSync turns a generated non-sweep strategy into a sweep (3 runs out of
// 4) when the solo profile of the scenario contains synchronising statements.
// On a tree without synchronisation in its read paths (today's) it never fires.
func adaptToSync(st *Strategy, profiles []map[int]int32) {
	if st.Kind == "sweep" || st.Kind == "replay" || st.Resolved {
		return
	}
	has := profilesHaveSync(profiles)
	if has && NewRng(st.Seed^0xada9).Chance(0.75) {
		st.Kind = "sweep"
	}
}

// resolveSweep fixes the target of a sweep strategy from the solo profile of
// the scenario: a task (among the first nTasks tasks), one of the DISTINCT
// sites its units visit when run alone (uniformly), and which visit.
// profilesHaveSync: does any task's site profile contain a synchronising
// statement (or the statement after one)?
func profilesHaveSync(profiles []map[int]int32) bool {
	for _, p := range profiles {
		for site := range p {
			if site > 0 && site < len(siteSync) && siteSync[site] {
				return true
			}
		}
	}
	return false
}

// coldProfiles aggregates, per task, the solo (cold, de-duplicated) site
// profiles of its units.
func coldProfiles(tasks []TaskSpec, refs map[string]unitRef) []map[int]int32 {
	out := make([]map[int]int32, len(tasks))
	for ti := range tasks {
		out[ti] = map[int]int32{}
		for ui := range tasks[ti].Units {
			for site, n := range refs[tasks[ti].Units[ui].key()].sites {
				out[ti][site] += n
			}
		}
	}
	return out
}

func resolveSweep(st *Strategy, tasks []TaskSpec, profiles []map[int]int32) {
	if st.Kind != "sweep" || st.Resolved {
		return
	}
	r := NewRng(st.Seed ^ 0x5eeb)
	st.Resolved = true
	var cand []int
	for ti := range tasks {
		if len(tasks[ti].Units) > 0 {
			cand = append(cand, ti)
		}
	}
	if len(cand) == 0 {
		return
	}
	st.Task = cand[r.Intn(len(cand))]
	agg := map[int]int32{}
	if st.Task < len(profiles) {
		agg = profiles[st.Task]
	}
	if len(agg) == 0 {
		return
	}
	sites := make([]int, 0, len(agg))
	for site := range agg {
		sites = append(sites, site)
	}
	sortInts(sites)
	// statements that synchronise, and the first statement after one (the gap
	// between two critical sections), are where atomicity violations live: when
	// the profile contains any, they are preferred
	var syncSites []int
	for _, site := range sites {
		if site > 0 && site < len(siteSync) && siteSync[site] {
			syncSites = append(syncSites, site)
		}
	}
	if len(syncSites) > 0 && r.Chance(0.8) {
		sites = syncSites
	}
	st.Site = sites[r.Intn(len(sites))]
	st.Skip = r.Intn(int(agg[st.Site]))
	switch {
	case r.Chance(0.3):
		// depth 2: park the next task too, after 1..~3000 of its yields (log-uniform)
		st.Second = 1 + int(r.U64()%uint64(1<<uint(r.Range(1, 12))))
	case r.Chance(0.25):
		// the target is parked twice, a few yields apart
		st.Again, st.FirstUnits = r.PickI(1, 1, 2, 3, 5), r.PickI(1, 1, 2, 0)
	}
	if r.Chance(0.5) {
		st.Skip = 0 // the first visit is the one lazily initialised state depends on
	}
}
