package main

import (
	"encoding/binary"
	"fmt"
	"github.com/openacid/slim/index"
	"os"
	"path/filepath"
	"sort"
	"strings"
	"sync"

	"github.com/openacid/slim/encode"
	"github.com/openacid/slim/trie"
	"github.com/openacid/testkeys"
)

// TrieSpec is the explicit, JSON-serialisable description of one build input.
// Values are given as one integer id per key; the encoder kind maps an id to a
// typed Go value, so that dropping a key during minimisation drops its value.
type TrieSpec struct {
	Keys   [][]byte `json:"keys"`
	ValIDs []int64  `json:"val_ids"` // nil => filter mode (no values)
	Enc    string   `json:"enc"`
	// Dedup, InnerPrefix, LeafPrefix, Complete: -1 nil, 0 explicit false, 1 true
	Opt [4]int8 `json:"opt"`
}

type pairLE struct {
	A uint16
	B int32
	C [2]uint8
}

var encKinds = []string{"i8", "i16", "i32", "i64", "u16", "u32", "u64", "int", "str16", "bytes3", "structle", "structbe", "bytes64", "bytes1k", "str16long", "userenc", "dummy", "userraw"}

// userEnc is an Encoder supplied by the "user" (the harness), not one of
// slim's own: variable width, one length byte followed by the payload, and
// unlike String16 it tolerates nil / short input in GetEncodedSize and Decode
// (a robust user implementation). The properties quantify over every encoder;
// code that special-cases slim's own encoder types, or probes an encoder with
// nil to guess "fixed size", behaves differently with this one.
type userEnc struct{}

func (userEnc) Encode(d interface{}) []byte {
	s := d.(string)
	if len(s) > 255 {
		s = s[:255]
	}
	return append([]byte{byte(len(s))}, s...)
}

func (userEnc) Decode(b []byte) (int, interface{}) {
	if len(b) == 0 {
		return 0, ""
	}
	l := int(b[0])
	if 1+l > len(b) {
		l = len(b) - 1
	}
	return 1 + l, string(b[1 : 1+l])
}

func (userEnc) GetSize(d interface{}) int {
	l := len(d.(string))
	if l > 255 {
		l = 255
	}
	return 1 + l
}

func (userEnc) GetEncodedSize(b []byte) int {
	if len(b) == 0 {
		return 0
	}
	return 1 + int(b[0])
}

// userRaw is a second user encoder: the payload and nothing else (the leaf array
// knows where an element ends). A value that is the empty string encodes to
// ZERO bytes - a leaf with an empty record next to leaves with records, in the
// fixed-size layout (all non-empty values equally long: "fixed with holes") as
// well as in the variable-size one.
type userRaw struct{}

func (userRaw) Encode(d interface{}) []byte        { return []byte(d.(string)) }
func (userRaw) Decode(b []byte) (int, interface{}) { return len(b), string(b) }
func (userRaw) GetSize(d interface{}) int          { return len(d.(string)) }
func (userRaw) GetEncodedSize(b []byte) int        { return len(b) }

// bytesSize: width of the fixed-size byte-slice encoders.
func bytesSize(kind string) int {
	switch kind {
	case "bytes3":
		return 3
	case "bytes64":
		return 64
	case "bytes1k":
		return 1024
	}
	return 0
}

// fixedEncKinds: encoders whose values have a fixed width (scans with values
// are only well defined for these in today's slim, see DESIGN 10).
func encFixed(kind string) bool {
	return kind != "str16" && kind != "str16long" && kind != "userenc" && kind != "userraw"
}

func encoderOf(kind string) encode.Encoder {
	switch kind {
	case "i8":
		return encode.I8{}
	case "i16":
		return encode.I16{}
	case "i32":
		return encode.I32{}
	case "i64":
		return encode.I64{}
	case "u16":
		return encode.U16{}
	case "u32":
		return encode.U32{}
	case "u64":
		return encode.U64{}
	case "int":
		return encode.Int{}
	case "userenc":
		return userEnc{}
	case "userraw":
		return userRaw{}
	case "dummy":
		return encode.Dummy{}
	case "str16", "str16long":
		return encode.String16{}
	case "bytes3", "bytes64", "bytes1k":
		return encode.Bytes{Size: bytesSize(kind)}
	case "structle":
		e, err := encode.NewTypeEncoderEndian(pairLE{}, binary.LittleEndian)
		if err != nil {
			panic(err)
		}
		return e
	case "structbe":
		e, err := encode.NewTypeEncoderEndian(pairLE{}, binary.BigEndian)
		if err != nil {
			panic(err)
		}
		return e
	}
	panic("unknown encoder kind " + kind)
}

// spread maps a small id to a value that exercises the full width of a type
// (sign bits, high bytes) while staying injective for small ids.
func spread(id int64) int64 {
	switch id % 5 {
	case 0:
		return id
	case 1:
		return -id
	case 2:
		return id << 20
	case 3:
		return int64(uint64(id) * 0x9e3779b97f4a7c15)
	}
	return ^id
}

// valuesOf materialises the typed value slice (with `extra` spare elements of
// capacity behind len, filled with sentinels, for the C20 monitors).
// shortValues / lastValueArena: side channel between valuesOf and the C20
// build scenario (which snapshots the whole record buffer).
var (
	shortValues    bool
	lastValueArena []byte
)

func valuesOf(kind string, ids []int64, extra int) interface{} {
	if ids == nil {
		return nil
	}
	n := len(ids)
	id := func(i int) int64 {
		if i < n {
			return ids[i]
		}
		return int64(0x5e0000 + i)
	}
	switch kind {
	case "i8":
		v := make([]int8, n+extra)
		for i := range v {
			v[i] = int8(id(i))
		}
		return v[:n]
	case "i16":
		v := make([]int16, n+extra)
		for i := range v {
			v[i] = int16(spread(id(i)))
		}
		return v[:n]
	case "i32":
		v := make([]int32, n+extra)
		for i := range v {
			v[i] = int32(spread(id(i)))
		}
		return v[:n]
	case "i64":
		v := make([]int64, n+extra)
		for i := range v {
			v[i] = spread(id(i))
		}
		return v[:n]
	case "u16":
		v := make([]uint16, n+extra)
		for i := range v {
			v[i] = uint16(spread(id(i)))
		}
		return v[:n]
	case "u32":
		v := make([]uint32, n+extra)
		for i := range v {
			v[i] = uint32(spread(id(i)))
		}
		return v[:n]
	case "u64":
		v := make([]uint64, n+extra)
		for i := range v {
			v[i] = uint64(spread(id(i)))
		}
		return v[:n]
	case "int":
		v := make([]int, n+extra)
		for i := range v {
			v[i] = int(spread(id(i)))
		}
		return v[:n]
	case "str16":
		v := make([]string, n+extra)
		for i := range v {
			x := id(i)
			v[i] = strings.Repeat("v", int(x%4)) + fmt.Sprint(x)
			if x%7 == 3 {
				v[i] = "" // zero-length payload (2-byte encoding)
			}
		}
		return v[:n]
	case "dummy":
		// every value encodes to nothing: with de-duplication on, only the first key is retained
		v := make([]int32, n+extra)
		for i := range v {
			v[i] = int32(id(i))
		}
		return v[:n]
	case "userenc":
		v := make([]string, n+extra)
		for i := range v {
			x := id(i)
			switch x % 5 {
			case 0:
				v[i] = "" // zero-length payload: 1-byte encoding
			case 1:
				v[i] = "same" // many values of equal length
			default:
				v[i] = strings.Repeat("u", int(x%9)) + fmt.Sprint(x)
			}
		}
		return v[:n]
	case "userraw":
		v := make([]string, n+extra)
		for i := range v {
			x := id(i)
			switch {
			case x%4 == 0:
				v[i] = "" // encodes to zero bytes
			case n%2 == 0:
				v[i] = fmt.Sprintf("r%03d", x%1000) // all non-empty values equally long
			default:
				v[i] = strings.Repeat("w", int(x%6)) + fmt.Sprint(x)
			}
		}
		return v[:n]
	case "str16long":
		// long variable-width payloads (up to ~600 bytes): big value arrays with few keys
		v := make([]string, n+extra)
		for i := range v {
			x := id(i)
			v[i] = strings.Repeat(fmt.Sprint("val", x, "-"), int(x%97)+1)
		}
		return v[:n]
	case "bytes3", "bytes64", "bytes1k":
		// All values are cut out of ONE caller-owned record buffer (the way a
		// caller slicing values out of a block it read would do), separated by
		// 4 sentinel bytes; every element's capacity therefore reaches into its
		// neighbours. With shortValues a few elements are SHORTER than the
		// encoder's size (an encoder that "pads" or "normalises" such a value
		// in place writes into caller memory behind len).
		sz := bytesSize(kind)
		v := make([][]byte, n+extra)
		arena := make([]byte, (n+extra)*(sz+4))
		for i := range arena {
			arena[i] = 0xA7
		}
		for i := range v {
			x := uint64(spread(id(i)))
			l := sz
			if shortValues && id(i)%11 == 4 && sz > 1 {
				l = sz - 1 - int(id(i)%int64(sz-1))%3
				if l < 1 {
					l = 1
				}
			}
			off := i * (sz + 4)
			b := arena[off : off+l]
			for j := range b {
				// cheap injective-enough filler derived from the id
				x = x*6364136223846793005 + 1442695040888963407
				b[j] = byte(x >> 56)
			}
			v[i] = b
		}
		lastValueArena = arena
		return v[:n]
	case "structle", "structbe":
		v := make([]pairLE, n+extra)
		for i := range v {
			x := spread(id(i))
			v[i] = pairLE{A: uint16(x), B: int32(x >> 3), C: [2]uint8{uint8(x >> 5), uint8(x >> 11)}}
		}
		return v[:n]
	}
	panic("unknown encoder kind " + kind)
}

func optBool(v int8) *bool {
	switch v {
	case 0:
		return trie.Bool(false)
	case 1:
		return trie.Bool(true)
	}
	return nil
}

func (s *TrieSpec) opt() trie.Opt {
	return trie.Opt{
		DedupValue:  optBool(s.Opt[0]),
		InnerPrefix: optBool(s.Opt[1]),
		LeafPrefix:  optBool(s.Opt[2]),
		Complete:    optBool(s.Opt[3]),
	}
}

// complete reports whether the spec stores complete keys (scans allowed).
func (s *TrieSpec) complete() bool {
	return s.Opt[3] == 1 || (s.Opt[1] == 1 && s.Opt[2] == 1)
}

func (s *TrieSpec) keyStrings() []string {
	ks := make([]string, len(s.Keys))
	for i, k := range s.Keys {
		ks[i] = string(k)
	}
	return ks
}

func (s *TrieSpec) summary() string {
	v := "nil"
	if s.ValIDs != nil {
		v = s.Enc
	}
	return fmt.Sprintf("keys=%d vals=%s opt=%v", len(s.Keys), v, s.Opt)
}

// build runs the real NewSlimTrie. A panic or error is returned as err (the
// differential oracles treat "both sides fail identically" as agreement).
func (s *TrieSpec) build() (st *trie.SlimTrie, err error) {
	defer func() {
		if r := recover(); r != nil {
			st, err = nil, fmt.Errorf("panic: %v", r)
		}
	}()
	return trie.NewSlimTrie(encoderOf(s.Enc), s.keyStrings(), valuesOf(s.Enc, s.ValIDs, 0), s.opt())
}

// freshBroken is set when NewSlimTrie(enc, nil, nil) - the receiver every load
// in the harness starts from - panics or returns something that is not empty.
// That can only happen through state shared between instances (a package-level
// "empty" object that an earlier load filled): the process can no longer
// isolate instances. C05 reports it (cross-instance residue); the other
// properties abandon the run as inconclusive.
var freshBroken string

func fresh(enc string) (st *trie.SlimTrie) {
	defer func() {
		if r := recover(); r != nil {
			if a, ok := r.(abortUnit); ok {
				panic(a) // the simulator is unwinding the caller: says nothing about the library
			}
			if freshBroken == "" {
				freshBroken = "NewSlimTrie(enc, nil, nil) panicked: " + clip(fmt.Sprint(r), 120)
			}
			st = &trie.SlimTrie{}
		}
	}()
	st, err := trie.NewSlimTrie(encoderOf(enc), nil, nil)
	if err != nil {
		panic(err)
	}
	if s := st.Stat(); s.KeyCnt != 0 || s.NodeCnt != 0 {
		if freshBroken == "" {
			freshBroken = fmt.Sprintf("NewSlimTrie(enc, nil, nil) returned a trie that is not empty (KeyCnt=%d NodeCnt=%d)", s.KeyCnt, s.NodeCnt)
		}
	} else if st.GetID("") != -1 {
		if freshBroken == "" {
			freshBroken = "NewSlimTrie(enc, nil, nil) returned a trie that finds the empty key"
		}
	}
	return st
}

// buildIndex builds the spec through index.NewSlimIndex when it can express it
// (int64 values, default options); nil otherwise.
func (s *TrieSpec) buildIndex() (si *index.SlimIndex) {
	if s.Enc != "i64" || s.ValIDs == nil || s.Opt != [4]int8{-1, -1, -1, -1} {
		return nil
	}
	defer func() {
		if r := recover(); r != nil {
			if a, ok := r.(abortUnit); ok {
				panic(a)
			}
			si = nil
		}
	}()
	vals, ok := valuesOf("i64", s.ValIDs, 0).([]int64)
	if !ok || len(vals) != len(s.Keys) {
		return nil
	}
	items := make([]index.OffsetIndexItem, len(s.Keys))
	for i, k := range s.Keys {
		items[i] = index.OffsetIndexItem{Key: string(k), Offset: vals[i]}
	}
	x, err := index.NewSlimIndex(items, offsetReader{})
	if err != nil {
		return nil
	}
	return x
}

// ---------------------------------------------------------------------------
// archived streams (durable state left by older writers)

type Fixture struct {
	Name   string // file name
	KeySet string
	Opt    string // "", nopref, innpref, allpref
	Ver    string
	Data   []byte
}

var (
	fixturesOnce sync.Once
	fixtures     []*Fixture
	fixtureByNm  = map[string]*Fixture{}
	fixtureDir   = "/repo/trie/testdata"
	keysetCache  = map[string][]string{}
	keysetMu     sync.Mutex
)

func loadFixtures() []*Fixture {
	fixturesOnce.Do(func() {
		files, _ := filepath.Glob(filepath.Join(fixtureDir, "slimtrie-data-*"))
		sort.Strings(files)
		for _, fn := range files {
			b, err := os.ReadFile(fn)
			if err != nil {
				continue
			}
			base := filepath.Base(fn)
			parts := strings.Split(base, "-")
			if len(parts) < 4 {
				continue
			}
			f := &Fixture{Name: base, KeySet: parts[2], Ver: parts[len(parts)-1], Data: b}
			if len(parts) == 5 {
				f.Opt = parts[3]
			}
			fixtures = append(fixtures, f)
			fixtureByNm[base] = f
		}
	})
	return fixtures
}

func fixture(name string) *Fixture {
	loadFixtures()
	return fixtureByNm[name]
}

func keysetOf(name string) (ks []string) {
	keysetMu.Lock()
	defer keysetMu.Unlock()
	if k, ok := keysetCache[name]; ok {
		return k
	}
	func() {
		defer func() {
			if r := recover(); r != nil {
				ks = nil
			}
		}()
		ks = testkeys.Load(name)
	}()
	keysetCache[name] = ks
	return ks
}

// fixtureEnc: every archived stream was written with int32 values 0..n-1.
const fixtureEnc = "i32"

func (f *Fixture) complete() bool { return f.Opt == "allpref" }
func (f *Fixture) threeSection() bool {
	return f.Opt == ""
}
