package main

import (
	"fmt"

	"github.com/golang/protobuf/proto"
	"github.com/openacid/errors"
	"github.com/openacid/slim/index"
	"github.com/openacid/slim/trie"
)

// C07 — incompatible versions and interrupted writes are rejected, never
// half-loaded. The fault is where the writer died (a strict prefix survives on
// the simulated disk) and who wrote the file (version field relabelled).

type C07Fault struct {
	Kind    string `json:"kind"` // cut | version
	Cut     int    `json:"cut,omitempty"`
	Version []byte `json:"version,omitempty"` // content of the 16-byte version field
}

type C07Scn struct {
	Fixture string     `json:"fixture,omitempty"`
	Spec    *TrieSpec  `json:"spec,omitempty"`
	Gen     string     `json:"gen,omitempty"`
	Prior   string     `json:"prior"` // fresh | built | loaded | legacy | reset | rejected
	Entry   string     `json:"entry"` // direct | proto | alternate
	Faults  []C07Fault `json:"faults"`
	Queries [][]byte   `json:"queries"`
	Chunk   int        `json:"chunk"` // writer chunk size on the simulated disk
	// Conc: after the sequential enumeration, several readers restart at once
	// (c07conc.go)
	Conc *C07Conc `json:"concurrent_restart,omitempty"`
	// IndexHome: the instance lives inside an index.SlimIndex for its whole
	// life (loads through si.Unmarshal when the entry says "index", lookups
	// through si.Get / si.RangeGet before and after the fault)
	IndexHome bool `json:"instance_lives_in_slimindex,omitempty"`
}

var fixedVersions = []string{
	// released 0.5.0 .. 0.5.7 wrote "1.0.0"; their literal strings are foreign
	"0.5.0", "0.5.1", "0.5.2", "0.5.3", "0.5.4", "0.5.5", "0.5.6", "0.5.7",
	// successors
	"0.5.13", "0.5.14", "0.5.100", "0.6.0", "0.6.1", "0.10.0", "1.0.1", "1.1.0", "1.0.10", "2.0.0", "2.5.12", "10.0.0",
	// predecessors that never wrote this header
	"0.0.0", "0.4.3", "0.5.00", "0.9.9", "0.1.0",
	// pre-releases of compatible versions
	"0.5.12-rc1", "0.5.12-0", "0.5.8-alpha", "1.0.0-beta.1", "0.5.11-x.y", "0.5.10-",
	// unparsable
	"", "abc", "0.5", "0", "v0.5.12", "0.5.012", "00.5.12", "0.5.12.1", " 0.5.12", "0.5.12 ", "0.5.12\x00x", "0,5,12", "0.5.-12", "0.5.1２", "..", "0.5.", ".5.12",
	"==0.5.12", "0.5.12 || 1.0.0", "*", "x.y.z", "0.5.x", "1", "1.0", "+", "-",
	// malformed build metadata behind a compatible core (well-formed metadata is NOT injected, see looksCompatible)
	"0.5.12+", "0.5.12+?", "0.5.9+", "1.0.0+a..b", "0.5.12+.", "0.5.10+a.", "0.5.11+ x", "0.5.12+a+b", "0.5.8+\x01", "0.5.12-+", "0.5.12+\xff",
	// numeric aliasing under packed / truncated comparisons
	"0.4.65548", "0.5.65548", "0.65536.0", "0.5.268", "0.4.112", "0.0.512", "0.5.4294967308", "1.0.65536", "256.0.0", "0.261.12",
	// 16-byte non-terminated fields
	"111111111111.2.6", "0.5.12xxxxxxxxxx", "0.5.12-aaaaaaaaa", "0000000000000000", "1.0.0.0.0.0.0.0.", "\xff\xff\xff\xff\xff\xff\xff\xff\xff\xff\xff\xff\xff\xff\xff\xff",
	"9999999999999999", "0.5.120000000000", "1.0.00000000000\x01",
}

func versionField(s string) []byte {
	b := make([]byte, 16)
	copy(b, s)
	return b
}

// genVersionArith derives foreign version strings from the compatible ones by
// arithmetic on the components: a borrow from a higher component carried into
// the next lower one for common packing bases (shifts by 8/10/16/32 bits,
// decimal 10/100/1000/10000), a multiple of the base added to one component,
// and values around the integer limits. Any implementation that compares
// packed integers, truncates components, or parses into fixed-width ints
// aliases some of these onto a compatible version.
func genVersionArith(r *Rng) []byte {
	compat := [][3]uint64{{1, 0, 0}, {0, 5, 8}, {0, 5, 9}, {0, 5, 10}, {0, 5, 11}, {0, 5, 12}}
	bases := []uint64{1 << 8, 1 << 10, 1 << 16, 1 << 32, 10, 100, 1000, 10000, 1 << 31, 1 << 20}
	for tries := 0; tries < 50; tries++ {
		v := compat[r.Intn(len(compat))]
		b := bases[r.Intn(len(bases))]
		switch r.Intn(5) {
		case 0: // borrow from minor into patch
			if v[1] == 0 {
				continue
			}
			v[1]--
			v[2] += b
		case 1: // borrow from major into minor
			if v[0] == 0 {
				continue
			}
			v[0]--
			v[1] += b
		case 2: // add a multiple of the base to one component
			v[r.Intn(3)] += b * uint64(r.Range(1, 3))
		case 3: // borrow twice: major -> minor -> patch
			if v[0] == 0 {
				continue
			}
			v[0]--
			v[1] += b - 1
			v[2] += b
		case 4: // limits
			lim := []uint64{1<<16 - 1, 1<<31 - 1, 1<<32 - 1, 1<<63 - 1, 1 << 63, 1<<64 - 1}[r.Intn(6)]
			v[r.Intn(3)] = lim
		}
		s := fmt.Sprintf("%d.%d.%d", v[0], v[1], v[2])
		if len(s) > 16 {
			continue
		}
		f := versionField(s)
		if looksCompatible(f) {
			continue
		}
		return f
	}
	return versionField("0.4.65548")
}

func genVersion(r *Rng) []byte {
	if r.Chance(0.3) {
		return genVersionArith(r)
	}
	switch r.Intn(6) {
	case 0, 1, 2:
		return versionField(fixedVersions[r.Intn(len(fixedVersions))])
	case 3:
		for {
			v := fmt.Sprintf("%d.%d.%d", r.Intn(3), r.Intn(12), r.Intn(30))
			switch v {
			case "1.0.0", "0.5.8", "0.5.9", "0.5.10", "0.5.11", "0.5.12":
				continue
			}
			return versionField(v)
		}
	case 4:
		return r.Bytes(16)
	default:
		// a compatible version damaged in one byte
		b := versionField(r.PickS("1.0.0", "0.5.8", "0.5.9", "0.5.10", "0.5.11", "0.5.12"))
		n := len(b)
		for n > 0 && b[n-1] == 0 {
			n--
		}
		i := r.Intn(n)
		old := b[i]
		b[i] = byte("0123456789.-ax +?"[r.Intn(17)])
		if b[i] == old {
			b[i] = 'z'
		}
		s := string(b[:n])
		switch s {
		case "1.0.0", "0.5.8", "0.5.9", "0.5.10", "0.5.11", "0.5.12":
			b[i] = 'z'
		}
		return b
	}
}

// semverBuildMetadata: "0.5.12+x" is EQUAL to 0.5.12 under semver precedence and
// is accepted today; the statement does not call it incompatible, so relabels
// containing '+' after a compatible core are not injected (DESIGN 4.2).
func looksCompatible(v []byte) bool {
	n := len(v)
	for n > 0 && v[n-1] == 0 {
		n--
	}
	s := string(v[:n])
	for _, c := range []string{"1.0.0", "0.5.8", "0.5.9", "0.5.10", "0.5.11", "0.5.12"} {
		if s == c || (len(s) > len(c) && s[:len(c)] == c && s[len(c)] == '+' && validBuildMeta(s[len(c)+1:])) {
			return true
		}
	}
	return false
}

// validBuildMeta: semver 2.0.0 section 10 - a series of dot separated, non-empty
// identifiers of [0-9A-Za-z-]. Only then is "<compatible>+<meta>" a well-formed
// version equal in precedence to the compatible one; "0.5.12+", "0.5.12+?" or
// "1.0.0+a..b" are unparsable version strings and must be rejected.
func validBuildMeta(m string) bool {
	if m == "" {
		return false
	}
	idLen := 0
	for i := 0; i < len(m); i++ {
		ch := m[i]
		switch {
		case ch == '.':
			if idLen == 0 {
				return false
			}
			idLen = 0
		case ch >= '0' && ch <= '9', ch >= 'a' && ch <= 'z', ch >= 'A' && ch <= 'Z', ch == '-':
			idLen++
		default:
			return false
		}
	}
	return idLen > 0
}

func genC07(r *Rng, tier string, worker, run int) *C07Scn {
	c := &C07Scn{IndexHome: r.Chance(0.25)}
	fx := loadFixtures()
	var keys [][]byte
	useFixture := len(fx) > 0 && run%2 == 0
	var stream []byte
	if useFixture {
		// deterministic coverage of all archived streams
		f := fx[(worker*7919+run/2)%len(fx)]
		if tier == "quick" && len(f.Data) > 400_000 {
			f = fx[(worker+run/2)%len(fx)]
		}
		c.Fixture, c.Gen = f.Name, "fixture"
		stream = f.Data
		for _, k := range keysetOf(f.KeySet) {
			keys = append(keys, []byte(k))
		}
	} else {
		lim := GenLimits{MaxKeys: 700}
		if tier == "thorough" && r.Chance(0.2) {
			lim.MaxKeys = 20000
		}
		for tries := 0; tries < 20; tries++ {
			spec, name := genSpec(r, lim)
			if c.IndexHome && spec.ValIDs != nil {
				spec.Enc = "i64" // SlimIndex reads offsets
			}
			st, err := spec.build()
			if err != nil {
				continue
			}
			b, err := safeMarshal(st)
			if err != nil {
				continue
			}
			c.Spec, c.Gen, stream, keys = &spec, name, b, spec.Keys
			break
		}
		if c.Spec == nil {
			sp := TrieSpec{Enc: "i32", Opt: [4]int8{-1, -1, -1, -1}}
			c.Spec, c.Gen = &sp, "empty"
			st, _ := sp.build()
			stream, _ = safeMarshal(st)
		}
	}
	enc := fixtureEnc
	if c.Spec != nil {
		enc = c.Spec.Enc
	}
	priors := []string{"fresh", "built", "loaded", "reset", "rejected", "zero"}
	if enc == "i32" {
		priors = append(priors, "legacy", "legacy")
	}
	c.Prior = priors[r.Intn(len(priors))]
	c.Entry = r.PickS("direct", "proto", "alternate")
	c.Chunk = r.PickI(1, 7, 64, 512, 4096)

	// queries: old content keys, new stream keys, random strings
	c.Queries = genQueries(r, keys, 10)
	for _, k := range priorKeys() {
		if r.Chance(0.15) {
			c.Queries = append(c.Queries, k)
		}
	}
	c.Queries = append(c.Queries, []byte("prior000"), []byte("prior003x"))

	// faults
	n := len(stream)
	full := 4096
	window := 2
	sample := 150
	if tier == "thorough" {
		full, window, sample = 65536, 64, 1500
	}
	cutSet := map[int]bool{}
	if n <= full {
		for k := 0; k < n; k++ {
			cutSet[k] = true
		}
	} else {
		for _, b := range boundaries(stream) {
			for k := b - window; k <= b+window; k++ {
				if k >= 0 && k < n {
					cutSet[k] = true
				}
			}
		}
		for i := 0; i < sample; i++ {
			cutSet[r.Intn(n)] = true
		}
	}
	cuts := make([]int, 0, len(cutSet))
	for k := range cutSet {
		cuts = append(cuts, k)
	}
	sortInts(cuts)
	for _, k := range cuts {
		c.Faults = append(c.Faults, C07Fault{Kind: "cut", Cut: k})
	}
	nv := 12
	if tier == "thorough" {
		nv = 40
	}
	if run%8 == 1 || run%8 == 0 {
		// every listed version string, on a regular share of the scenarios
		for _, v := range fixedVersions {
			c.Faults = append(c.Faults, C07Fault{Kind: "version", Version: versionField(v)})
		}
	}
	for i := 0; i < nv; i++ {
		v := genVersion(r)
		if looksCompatible(v) {
			continue
		}
		c.Faults = append(c.Faults, C07Fault{Kind: "version", Version: v})
	}
	if n <= 200_000 && r.Chance(0.6) {
		c.Conc = genC07Conc(r, c)
	}
	return c
}

func priorSpecFor(enc string) *TrieSpec {
	sp := &TrieSpec{Enc: enc, Opt: [4]int8{-1, -1, -1, 1}}
	for i := 0; i < 40; i++ {
		sp.Keys = append(sp.Keys, []byte(fmt.Sprintf("prior%03d", i*3)))
		sp.ValIDs = append(sp.ValIDs, int64(i))
	}
	return sp
}

func priorKeys() [][]byte { return priorSpecFor("i32").Keys }

var priorStreams = map[string][]byte{}

func priorStreamFor(enc string) []byte {
	ambSettle()
	if b, ok := priorStreams[enc]; ok {
		return b
	}
	var b []byte
	ambIsolated(func() {
		st, err := priorSpecFor(enc).build()
		if err != nil {
			panic(err)
		}
		b, err = st.Marshal()
		if err != nil {
			panic(err)
		}
	})
	priorStreams[enc] = b
	return b
}

const priorLegacyFixture = "slimtrie-data-11vl5-0.5.9"

// priorInstance creates an instance in the given prior state. ok=false if the
// state cannot be produced (then the scenario falls back to fresh).
func priorInstance(kind, enc string) (st *trie.SlimTrie, held bool) {
	defer func() {
		if r := recover(); r != nil {
			st, held = fresh(enc), false
		}
	}()
	switch kind {
	case "zero":
		// the zero value (var st trie.SlimTrie / new(trie.SlimTrie)), the way
		// proto.Message users create a receiver; it has no encoder, but a
		// rejected load must still leave it answering as empty
		return &trie.SlimTrie{}, false
	case "built":
		s, err := priorSpecFor(enc).build()
		if err == nil {
			return s, true
		}
	case "loaded", "reset", "rejected":
		s := fresh(enc)
		if err := s.Unmarshal(append([]byte{}, priorStreamFor(enc)...)); err == nil {
			switch kind {
			case "reset":
				s.Reset()
				return s, false
			case "rejected":
				b := priorStreamFor(enc)
				_ = s.Unmarshal(append([]byte{}, b[:len(b)/2]...))
				return s, false
			}
			return s, true
		}
	case "legacy":
		if f := fixture(priorLegacyFixture); f != nil && enc == "i32" {
			s := fresh(enc)
			if err := s.Unmarshal(append([]byte{}, f.Data...)); err == nil {
				return s, true
			}
		}
	}
	return fresh(enc), false
}

// emptyAnswers checks that st answers lookups and scans as an empty trie.
func emptyAnswers(st *trie.SlimTrie, qs [][]byte) (bad string) {
	defer func() {
		if r := recover(); r != nil {
			if _, ok := r.(abortUnit); ok {
				bad = "a lookup or scan did not return within the step budget (an empty trie answers in a handful of steps)"
				return
			}
			bad = "panic while querying after the rejected load: " + clip(fmt.Sprint(r), 120)
		}
	}()
	for _, qb := range qs {
		q := string(qb)
		if v, f := st.Get(q); f || v != nil {
			return fmt.Sprintf("Get(%q) = %s,%v", q, fmtVal(v), f)
		}
		if id := st.GetID(q); id != -1 {
			return fmt.Sprintf("GetID(%q) = %d", q, id)
		}
		if v, f := st.RangeGet(q); f || v != nil {
			return fmt.Sprintf("RangeGet(%q) = %s,%v", q, fmtVal(v), f)
		}
		if l, e, r := st.Search(q); l != nil || e != nil || r != nil {
			return fmt.Sprintf("Search(%q) = %s,%s,%s", q, fmtVal(l), fmtVal(e), fmtVal(r))
		}
		if _, f := st.GetI8(q); f {
			return fmt.Sprintf("GetI8(%q) found", q)
		}
		if _, f := st.GetI16(q); f {
			return fmt.Sprintf("GetI16(%q) found", q)
		}
		if _, f := st.GetI32(q); f {
			return fmt.Sprintf("GetI32(%q) found", q)
		}
		if _, f := st.GetI64(q); f {
			return fmt.Sprintf("GetI64(%q) found", q)
		}
		n := 0
		var first []byte
		cb := func(k, v []byte) bool {
			if n == 0 {
				first = append([]byte{}, k...)
			}
			n++
			return n < 3
		}
		st.ScanFrom(q, true, true, cb)
		st.ScanFrom(q, false, false, cb)
		st.ScanFromTo(q, true, "\xff\xff\xff\xff", true, true, cb)
		if n != 0 {
			return fmt.Sprintf("scan from %q yielded %d entries, first %q", q, n, first)
		}
		nx := st.NewIter(q, true, true)
		if k, _ := nx(); k != nil {
			return fmt.Sprintf("NewIter(%q) yielded %q", q, k)
		}
	}
	// scans from the very beginning
	n := 0
	st.ScanFrom("", true, false, func(k, v []byte) bool { n++; return false })
	if n != 0 {
		return "ScanFrom(\"\") yielded an entry"
	}
	if si := homeOf(st); si != nil {
		// the instance lives inside an index.SlimIndex: its lookups are lookups
		// of the same instance
		for _, qb := range qs {
			q := string(qb)
			if v, f := si.Get(q); f {
				return fmt.Sprintf("SlimIndex.Get(%q) = %q,true", q, v)
			}
			if v, f := si.RangeGet(q); f {
				return fmt.Sprintf("SlimIndex.RangeGet(%q) = %q,true", q, v)
			}
		}
	}
	return ""
}

// homedPrior: priorInstance, optionally moved into an index.SlimIndex that is
// then read through (every query once, hits included) before the fault arrives.
func (c *C07Scn) homedPrior(kind, enc string) (*trie.SlimTrie, bool) {
	st, held := priorInstance(kind, enc)
	if !c.IndexHome {
		return st, held
	}
	st = newIndexHome(st)
	si := homeOf(st)
	if si == nil {
		return st, held
	}
	// (bounded: a lookup that never returns on a valid prior state is not this
	// scenario's business; whatever the reads panic with is not either)
	withStepCap(2_000_000, func() {
		for _, qb := range c.Queries {
			func() {
				defer func() { recover() }()
				si.Get(string(qb))
				si.RangeGet(string(qb))
			}()
		}
	})
	return st, held
}

const panStepCap = "STEPCAP"

func loadVia(st *trie.SlimTrie, entry string, buf []byte) (err error, pan string) {
	defer func() {
		if r := recover(); r != nil {
			if a, ok := r.(abortUnit); ok {
				pan = panStepCap
				if a.why != "stepcap" {
					pan = "ABORT:" + a.why
				}
				return
			}
			pan = clip(fmt.Sprint(r), 160)
		}
	}()
	if entry == "proto" {
		return proto.Unmarshal(buf, st), ""
	}
	if entry == "index" {
		if si := homeOf(st); si != nil {
			// the instance lives inside an index: the load goes through the
			// object the user holds
			return si.Unmarshal(buf), ""
		}
		// through index.SlimIndex, which embeds the trie by value (as
		// NewSlimIndex builds it): whatever Unmarshal the index type offers
		si := &index.SlimIndex{SlimTrie: *st}
		defer func() { *st = si.SlimTrie }()
		return si.Unmarshal(buf), ""
	}
	return st.Unmarshal(buf), ""
}

func streamLayout(b []byte) string {
	secs := sections(b)
	if len(secs) >= 3 {
		return "legacy3"
	}
	if len(secs) == 1 {
		switch secs[0].Ver {
		case "0.5.10", "0.5.11":
			return "v0.5.10"
		}
		return "current"
	}
	return "unknown"
}

func executeC07(scn *Scenario) *RunResult {
	c := scn.C07
	res := &RunResult{Counters: map[string]int64{}}
	var stream []byte
	enc := fixtureEnc
	id := c.Fixture
	if c.Fixture != "" {
		f := fixture(c.Fixture)
		if f == nil {
			res.Skipped = "unknown_fixture"
			return res
		}
		stream = f.Data
	} else {
		st, err := c.Spec.build()
		if err != nil {
			res.Skipped = "build_failed"
			return res
		}
		stream, err = safeMarshal(st)
		if err != nil {
			res.Skipped = "marshal_failed"
			return res
		}
		enc = c.Spec.Enc
		id = fmt.Sprintf("gen:%s:%016x", c.Gen, hash64(string(stream)))
	}
	layout := streamLayout(stream)
	secs := sections(stream)

	// fault-free control (separate configuration): the uncut stream loads.
	var refSteps int64
	{
		ctlPrior := c.Prior
		if ctlPrior == "zero" {
			ctlPrior = "fresh" // the control needs an encoder for legacy layouts; the faults below use the zero value
		}
		st, _ := priorInstance(ctlPrior, enc)
		disk := newDisk()
		disk.Write("f", stream, func() int { return c.Chunk }, -1)
		var err error
		var pan string
		ctlBuf := disk.Read("f")
		refSteps, _ = withStepCap(refLoadCap, func() { err, pan = loadVia(st, "direct", ctlBuf) })
		res.Counters["control_loads"]++
		if err != nil || pan != "" {
			res.Skipped = "control_stream_does_not_load"
			return res
		}
	}

	rng := NewRng(scn.RunSeed ^ 0xc07)
	disk := newDisk()
	groupDistinct := int64(0)
	var viol *Violation
	for fi, ft := range c.Faults {
		entry := c.Entry
		if entry == "alternate" {
			entry = []string{"direct", "proto", "direct", "index"}[fi%4]
		}
		st, held := c.homedPrior(c.Prior, enc)
		var durable []byte
		nontrivial := false
		switch ft.Kind {
		case "cut":
			cut := ft.Cut
			if cut >= len(stream) {
				cut = len(stream) - 1
			}
			if cut < 0 {
				continue
			}
			chunk := c.Chunk
			disk.Write("f", stream, func() int { return 1 + rng.Intn(chunk) }, cut)
			durable = disk.Read("f")
			if len(durable) != cut {
				panic("disk stub: durable length differs from the crash offset")
			}
			res.Counters["fault.writer_crash_prefix_survives"]++
			inLater := len(secs) >= 2 && cut > secs[1].Off
			if inLater {
				res.Counters["probe.cut_in_2nd_or_3rd_section"]++
			}
			if len(secs) >= 3 && cut > secs[2].Off {
				res.Counters["probe.cut_in_3rd_section"]++
			}
			if cut < 32 {
				res.Counters["probe.cut_in_first_header"]++
			}
			nontrivial = (cut > 0 && held) || inLater
		case "version":
			b := append([]byte{}, stream...)
			if len(b) < 16 || len(ft.Version) != 16 {
				continue
			}
			copy(b[:16], ft.Version)
			disk.Write("f", b, func() int { return c.Chunk }, -1)
			durable = disk.Read("f")
			res.Counters["fault.foreign_version_header"]++
			nontrivial = held
		default:
			continue
		}
		res.Evals++
		res.Counters["prior."+c.Prior]++
		if c.IndexHome {
			res.Counters["probe.instance_lives_in_slimindex"]++
		}
		res.Counters["entry."+entry]++
		res.Counters["layout."+layout]++
		if nontrivial {
			groupDistinct++
		}
		var err error
		var pan string
		steps, _ := withStepCap(loadCap(refSteps), func() { err, pan = loadVia(st, entry, durable) })
		res.Steps += steps
		where := fmt.Sprintf("fault=%s,layout=%s,entry=%s", ft.Kind, layout, entry)
		desc := fmt.Sprintf("stream %s (%d bytes), prior state %s, ", id, len(stream), c.Prior)
		if ft.Kind == "cut" {
			desc += fmt.Sprintf("write interrupted after %d bytes", ft.Cut)
		} else {
			desc += fmt.Sprintf("version field %q", ft.Version)
		}
		switch {
		case pan == panStepCap:
			viol = &Violation{Prop: "C07", Oracle: "load-does-not-return", Where: where, Detail: desc + fmt.Sprintf(": Unmarshal did not return within %d steps (loading the whole stream takes %d)", loadCap(refSteps), refSteps)}
		case pan != "":
			viol = &Violation{Prop: "C07", Oracle: "panic-on-load", Where: where, Detail: desc + ": Unmarshal panicked: " + pan}
		case err == nil:
			viol = &Violation{Prop: "C07", Oracle: "accepted", Where: where, Detail: desc + ": Unmarshal returned nil error"}
		case ft.Kind == "version" && errors.Cause(err) != trie.ErrIncompatible:
			viol = &Violation{Prop: "C07", Oracle: "wrong-error", Where: where, Detail: desc + ": error is not ErrIncompatible: " + clip(err.Error(), 160)}
		default:
			var bad string
			qs, capped := withStepCap(loadCap(refSteps), func() { bad = emptyAnswers(st, c.Queries) })
			res.Steps += qs
			if capped && bad == "" {
				bad = "a lookup or scan did not return within the step budget (an empty trie answers in a handful of steps)"
			}
			if bad != "" {
				viol = &Violation{Prop: "C07", Oracle: "not-empty-after-reject", Where: where, Detail: desc + ": after the rejected load " + bad}
			}
		}
		if c.IndexHome {
			dropIndexHome(st)
		}
		if viol != nil {
			viol.Step = int64(fi)
			break
		}
	}
	if viol == nil && c.Conc != nil && refSteps <= 2_000_000 {
		viol = c.concurrentPhase(scn, res, stream, enc, layout, id, refSteps)
	}
	res.Viol = viol
	res.NonTrivial = groupDistinct > 0
	res.GroupDistinct = map[uint64]int64{hash64(id, c.Prior, c.Entry): groupDistinct}
	res.Counters["disk.chunks_written"] += disk.writes
	res.Sample = map[string]interface{}{
		"run_seed": scn.RunSeed, "stream": id, "stream_bytes": len(stream), "layout": layout, "prior_state": c.Prior,
		"entry": c.Entry, "faults": len(c.Faults), "first_faults": firstFaults(c.Faults), "queries": len(c.Queries),
	}
	return res
}

func firstFaults(fs []C07Fault) []string {
	var out []string
	for i, f := range fs {
		if i >= 3 {
			break
		}
		out = append(out, fmt.Sprintf("cut@%d", f.Cut))
	}
	for i := len(fs) - 1; i >= 0 && i >= len(fs)-3; i-- {
		if fs[i].Kind == "version" {
			out = append(out, fmt.Sprintf("version=%q", fs[i].Version))
		}
	}
	return out
}

// redC07: keep only the failing fault, simplify the prior state, drop keys.
func redC07(s *Scenario) []func(*Scenario) bool {
	var out []func(*Scenario) bool
	n := len(s.C07.Faults)
	for chunk := n / 2; chunk >= 1; chunk /= 2 {
		for from := 0; from+chunk <= n; from += chunk {
			from, chunk := from, chunk
			out = append(out, func(c *Scenario) bool {
				f := c.C07.Faults
				if from+chunk > len(f) || len(f) <= 1 {
					return false
				}
				c.C07.Faults = append(append([]C07Fault{}, f[:from]...), f[from+chunk:]...)
				return true
			})
		}
		if len(out) > 64 {
			break
		}
	}
	if cc := s.C07.Conc; cc != nil {
		out = append(out, func(c *Scenario) bool { c.C07.Conc = nil; return true })
		for i := range cc.Faults {
			i := i
			out = append(out, func(c *Scenario) bool {
				f := c.C07.Conc.Faults
				if i >= len(f) || len(f) <= 1 {
					return false
				}
				c.C07.Conc.Faults = append(append([]C07Fault{}, f[:i]...), f[i+1:]...)
				c.Segs, c.Strat = nil, Strategy{Kind: "none"}
				return true
			})
		}
		if cc.Valid > 1 {
			out = append(out, func(c *Scenario) bool {
				c.C07.Conc.Valid = 1
				c.Segs, c.Strat = nil, Strategy{Kind: "none"}
				return true
			})
		}
		out = append(out, redSegs(s)...)
	}
	if s.C07.Prior != "fresh" {
		out = append(out, func(c *Scenario) bool { c.C07.Prior = "fresh"; return true })
	}
	if s.C07.Entry != "direct" {
		out = append(out, func(c *Scenario) bool { c.C07.Entry = "direct"; return true })
	}
	if len(s.C07.Queries) > 1 {
		out = append(out, func(c *Scenario) bool { c.C07.Queries = c.C07.Queries[:len(c.C07.Queries)/2]; return true })
		out = append(out, func(c *Scenario) bool { c.C07.Queries = c.C07.Queries[len(c.C07.Queries)/2:]; return true })
	}
	return out
}
