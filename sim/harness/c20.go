package main

import (
	"bytes"
	"fmt"
	"reflect"
	"sync"
	"unsafe"

	"github.com/golang/protobuf/proto"
	"github.com/openacid/slim/index"
	"github.com/openacid/slim/trie"
)

// C20 — build and load neither modify nor alias caller-owned memory.
// Caller memory lives in canary-guarded arenas of the simulated buffer pool;
// snapshot monitors are evaluated at yields INSIDE NewSlimTrie / Unmarshal /
// Marshal, and a scribbler task recycles buffers at scheduler-chosen instants
// while reader tasks run.

type C20Scn struct {
	Kind     string     `json:"kind"` // build | load | marshal | dualload
	Spec     *TrieSpec  `json:"spec,omitempty"`
	Fixture  string     `json:"fixture,omitempty"`
	Gen      string     `json:"gen,omitempty"`
	Pattern  string     `json:"pattern"`
	Chunk    int        `json:"chunk"` // scribbler chunk size; 0 = whole buffer at once
	Delay    int        `json:"delay"` // harness yields the scribbler lets pass before it starts
	Every    int        `json:"monitor_every"`
	Entry    string     `json:"entry"` // direct | proto
	Reloaded bool       `json:"reloaded,omitempty"`
	Readers  []TaskSpec `json:"readers"`
	// IndexHome: loaded instances live inside an index.SlimIndex (loads through
	// si.Unmarshal when the entry says "index", index reads through that object)
	IndexHome bool `json:"instance_lives_in_slimindex,omitempty"`
	// Segments (load): the caller's buffer is a segment file, two streams back to
	// back; Unmarshal is handed the whole buffer (it reads its own stream and
	// ignores what follows). After the buffer was recycled, the region behind the
	// first stream - by then holding another valid stream - is loaded into a
	// second instance.
	Segments bool `json:"segment_file,omitempty"`
}

func genC20(r *Rng, tier string) *C20Scn {
	c := &C20Scn{}
	c.Kind = []string{"build", "load", "marshal", "dualload"}[r.WeightedPick([]int{25, 40, 25, 10})]
	c.Pattern = r.PickS("zero", "ff", "random", "stream", "invert")
	c.Chunk = r.PickI(0, 0, 1, 7, 64, 1024)
	c.Delay = r.PickI(0, 0, 1, 2, 5, 20)
	c.Entry = r.PickS("direct", "index", "proto")
	c.Reloaded = r.Chance(0.2)
	lim := GenLimits{MaxKeys: 300}
	if r.Chance(0.15) {
		lim.MaxKeys = 3000
	}
	if tier == "thorough" && r.Chance(0.1) {
		lim.MaxKeys = 20000
	}
	var keys [][]byte
	mix := UnitMix{ScanLimit: 5}
	useFixture := (c.Kind == "load" || c.Kind == "dualload") && r.Chance(0.55)
	if useFixture {
		fx := loadFixtures()
		var cand []*Fixture
		for _, f := range fx {
			if len(f.Data) <= 200_000 || tier == "thorough" {
				cand = append(cand, f)
			}
		}
		if len(cand) > 0 {
			// the 0.5.10 streams are the ones whose prefixes are rewritten in place during load
			f := cand[r.Intn(len(cand))]
			if r.Chance(0.4) {
				var c510 []*Fixture
				for _, g := range cand {
					if g.Opt != "" {
						c510 = append(c510, g)
					}
				}
				if len(c510) > 0 {
					f = c510[r.Intn(len(c510))]
				}
			}
			c.Fixture, c.Gen = f.Name, "fixture"
			for _, k := range keysetOf(f.KeySet) {
				keys = append(keys, []byte(k))
			}
			mix.Complete, mix.IntWidth = f.complete(), 4
		}
	}
	if c.Fixture == "" {
		sp, name := genSpec(r, lim)
		if c.Kind != "build" && r.Chance(0.04) {
			sp, name = genBigValueSpec(r)
		}
		c.Spec, c.Gen = &sp, name
		keys = sp.Keys
		mix.Complete, mix.IntWidth = sp.complete(), intWidth(sp.Enc, sp.ValIDs != nil)
	}
	n := len(keys)
	// monitor cost is O(n) per evaluation and a call has O(n) yields: sample so
	// that one scenario stays around 10^7 elementary comparisons
	c.Every = (1 + n*n/6000) * r.PickI(1, 1, 2, 3)
	mix.Heavy = n <= 3000
	qs := genQueries(r, keys, 30)
	nt := r.Range(1, 4)
	for i := 0; i < nt; i++ {
		ts := TaskSpec{}
		for j, nu := 0, r.Range(2, 10); j < nu; j++ {
			ts.Units = append(ts.Units, genUnit(r, qs, mix))
		}
		c.Readers = append(c.Readers, ts)
	}
	c.IndexHome = r.Chance(0.25)
	c.Segments = c.Kind == "load" && r.Chance(0.25)
	return c
}

func (c *C20Scn) streamAndEnc() ([]byte, string, error) {
	if c.Fixture != "" {
		f := fixture(c.Fixture)
		if f == nil {
			return nil, "", fmt.Errorf("unknown fixture")
		}
		return f.Data, fixtureEnc, nil
	}
	st, err := c.Spec.build()
	if err != nil {
		return nil, "", err
	}
	b, err := safeMarshal(st)
	return b, c.Spec.Enc, err
}

func (c *C20Scn) id() string {
	if c.Fixture != "" {
		return c.Fixture
	}
	return c.Gen + "/" + c.Spec.summary()
}

// ---------------------------------------------------------------------------
// caller memory for the build scenario

type callerMem struct {
	keys     []string
	keysSnap []string
	keysPtr  []uintptr
	vals     interface{}
	valsSnap interface{}
	opts     []trie.Opt
	optSnap  trie.Opt
	boolSnap [4]int8
	spec     *TrieSpec
	// the record buffer the []byte values are cut out of (whole buffer:
	// content, the sentinel gaps and everything behind each element's len)
	arena, arenaSnap []byte
	// slice headers (data pointer, len, cap) of the elements of a [][]byte
	// value slice: re-pointing an element at other memory with equal content
	// is a modification of the caller's slice that no content comparison sees
	hdrSnap [][3]uintptr
}

const spareElems = 3

func newCallerMem(sp *TrieSpec) *callerMem {
	m := &callerMem{spec: sp}
	n := len(sp.Keys)
	all := make([]string, n+spareElems)
	for i := range all {
		if i < n {
			all[i] = string(sp.Keys[i])
		} else {
			all[i] = fmt.Sprintf("\xffspare-key-%d", i)
		}
	}
	m.keys = all[:n]
	shortValues, lastValueArena = true, nil
	m.vals = valuesOf(sp.Enc, sp.ValIDs, spareElems)
	shortValues = false
	m.arena = lastValueArena
	m.arenaSnap = append([]byte{}, m.arena...)
	o := sp.opt()
	optsAll := make([]trie.Opt, 2)
	optsAll[0] = o
	optsAll[1] = trie.Opt{Complete: trie.Bool(true)}
	m.opts = optsAll[:1]
	m.snapshot()
	return m
}

func fullSlice(v interface{}) reflect.Value {
	rv := reflect.ValueOf(v)
	return rv.Slice3(0, rv.Cap(), rv.Cap())
}

func deepCopy(v reflect.Value) reflect.Value {
	out := reflect.MakeSlice(v.Type(), v.Len(), v.Len())
	reflect.Copy(out, v)
	if v.Type().Elem().Kind() == reflect.Slice { // [][]byte
		for i := 0; i < v.Len(); i++ {
			e := v.Index(i)
			c := reflect.MakeSlice(e.Type(), e.Len(), e.Len())
			reflect.Copy(c, e)
			out.Index(i).Set(c)
		}
	}
	return out
}

// strData returns the data pointer of a string header (unsafe.StringData needs go1.20).
func strData(s string) uintptr { return *(*uintptr)(unsafe.Pointer(&s)) }

func optBoolVal(p *bool) int8 {
	if p == nil {
		return -1
	}
	if *p {
		return 1
	}
	return 0
}

func (m *callerMem) snapshot() {
	all := m.keys[:cap(m.keys)]
	m.keysSnap = make([]string, len(all))
	m.keysPtr = make([]uintptr, len(all))
	for i, k := range all {
		m.keysSnap[i] = string(append([]byte{}, k...))
		m.keysPtr[i] = strData(k)
	}
	if m.vals != nil {
		m.valsSnap = deepCopy(fullSlice(m.vals)).Interface()
	}
	m.hdrSnap = m.headers()
	m.optSnap = m.opts[0]
	o := m.opts[0]
	m.boolSnap = [4]int8{optBoolVal(o.DedupValue), optBoolVal(o.InnerPrefix), optBoolVal(o.LeafPrefix), optBoolVal(o.Complete)}
}

// recycle overwrites everything the caller owns: the record buffer of []byte
// values, every element of the value slice (zero value / overwritten bytes),
// every key (replaced by another string), the option slice and the bools its
// pointers point to.
func (m *callerMem) recycle(r *Rng, pattern string) {
	if len(m.arena) > 0 {
		scribble(m.arena, 0, len(m.arena), pattern, r, nil)
	}
	if m.vals != nil {
		v := fullSlice(m.vals)
		zero := reflect.Zero(v.Type().Elem())
		for i := 0; i < v.Len(); i++ {
			e := v.Index(i)
			if e.Kind() == reflect.Slice {
				continue // element storage already overwritten through the record buffer; keep the headers (a caller reusing its buffer does)
			}
			if e.Kind() == reflect.String {
				e.SetString("recycled")
				continue
			}
			e.Set(zero)
		}
	}
	all := m.keys[:cap(m.keys)]
	for i := range all {
		all[i] = "\x00recycled-key"
	}
	for _, o := range m.opts[:cap(m.opts)] {
		for _, p := range []*bool{o.DedupValue, o.InnerPrefix, o.LeafPrefix, o.Complete} {
			if p != nil {
				*p = !*p
			}
		}
	}
	for i := range m.opts[:cap(m.opts)] {
		m.opts[:cap(m.opts)][i] = trie.Opt{}
	}
}

// headers returns (data pointer, len, cap) of every element of a [][]byte value
// slice over its whole capacity; nil for other value types.
func (m *callerMem) headers() [][3]uintptr {
	vs, ok := m.vals.([][]byte)
	if !ok {
		return nil
	}
	vs = vs[:cap(vs)]
	out := make([][3]uintptr, len(vs))
	for i, v := range vs {
		var p uintptr
		if cap(v) > 0 {
			p = uintptr(unsafe.Pointer(&v[:1][0]))
		}
		out[i] = [3]uintptr{p, uintptr(len(v)), uintptr(cap(v))}
	}
	return out
}

// cost: bytes compared by one evaluation of check().
func (m *callerMem) cost() int64 {
	c := int64(len(m.arena)) + 64*int64(cap(m.keys))
	for _, k := range m.keysSnap {
		c += int64(len(k))
	}
	return c
}

func (m *callerMem) check() string {
	all := m.keys[:cap(m.keys)]
	for i, k := range all {
		if k != m.keysSnap[i] || strData(k) != m.keysPtr[i] {
			return fmt.Sprintf("key slice element %d changed (%q -> %q)", i, clip(m.keysSnap[i], 40), clip(k, 40))
		}
	}
	if m.vals != nil {
		if !reflect.DeepEqual(fullSlice(m.vals).Interface(), m.valsSnap) {
			cur, snap := fullSlice(m.vals), reflect.ValueOf(m.valsSnap)
			for i := 0; i < cur.Len(); i++ {
				if !reflect.DeepEqual(cur.Index(i).Interface(), snap.Index(i).Interface()) {
					return fmt.Sprintf("value slice element %d changed (%v -> %v)", i, snap.Index(i).Interface(), cur.Index(i).Interface())
				}
			}
			return "value slice changed"
		}
	}
	if h := m.headers(); len(h) == len(m.hdrSnap) {
		for i := range h {
			if h[i] != m.hdrSnap[i] {
				return fmt.Sprintf("value slice element %d was re-pointed: (data pointer, len, cap) changed from %v to %v", i, m.hdrSnap[i], h[i])
			}
		}
	}
	if !bytes.Equal(m.arena, m.arenaSnap) {
		i := firstDiff(m.arena, m.arenaSnap)
		return fmt.Sprintf("the record buffer the []byte values are slices of changed at offset %d (%#02x -> %#02x): a write behind len of a value element or into a neighbouring value", i, m.arenaSnap[i], m.arena[i])
	}
	o := m.opts[0]
	if o != m.optSnap {
		return "option struct changed (a pointer field was replaced)"
	}
	b := [4]int8{optBoolVal(o.DedupValue), optBoolVal(o.InnerPrefix), optBoolVal(o.LeafPrefix), optBoolVal(o.Complete)}
	if b != m.boolSnap {
		return fmt.Sprintf("a bool the option struct points to changed (%v -> %v)", m.boolSnap, b)
	}
	all2 := m.opts[:cap(m.opts)]
	if all2[1].Complete == nil || !*all2[1].Complete || all2[1].DedupValue != nil {
		return "spare capacity behind the option slice was written"
	}
	return ""
}

// ---------------------------------------------------------------------------

func executeC20(scn *Scenario) *RunResult {
	c := scn.C20
	res := &RunResult{Counters: map[string]int64{}}
	res.Counters["kind."+c.Kind]++
	var viol *Violation
	fail := func(oracle, where, detail, exp, got string, step int64) {
		if viol == nil {
			viol = &Violation{Prop: "C20", Oracle: oracle, Where: where, Detail: detail, Expected: clip(exp, 400), Got: clip(got, 400), Step: step}
		}
	}
	every := c.Every
	if every < 1 {
		every = 1
	}
	var monitorEvals, yieldsInside int64

	// monitored runs f with a hook that evaluates chk at yields inside f.
	// A monitor evaluation costs `cost` byte comparisons (the whole of the
	// caller memory it guards). The sampling period starts at `every` and
	// doubles each time a quarter of the evaluation budget of the call is
	// used up, so one call never spends more than about 4x10^9 byte
	// comparisons on monitoring, whatever its length: a deterministic function
	// of the yield count, never of wall-clock time.
	monitored := func(what string, cost int64, chk func() string, f func()) {
		var n, next, evalsHere int64
		period := int64(every)
		next = period
		if cost < 1 {
			cost = 1
		}
		quarter := 1_000_000_000 / cost
		if quarter < 16 {
			quarter = 16
		}
		setHook(func(site int) {
			n++
			liveTicks++
			yieldsInside++
			if n > 2_000_000_000 && locksHeld() == 0 {
				panic(abortUnit{"stepcap"})
			}
			if n == next {
				evalsHere++
				if evalsHere%quarter == 0 {
					period *= 2
				}
				next = n + period
				monitorEvals++
				if bad := chk(); bad != "" {
					fail("caller-memory-modified-during-call", what, fmt.Sprintf("%s on %s: at yield %d (%s) inside the call: %s", what, c.id(), n, siteName(site), bad), "", "", n)
				}
			}
		})
		defer func() {
			setHook(nil)
			if r := recover(); r != nil {
				if _, ok := r.(abortUnit); ok {
					return
				}
				res.Counters["call_panicked"]++
			}
			ambBetweenCalls()
		}()
		f()
	}

	switch c.Kind {
	case "build":
		if c.Spec == nil {
			res.Skipped = "no_spec"
			return res
		}
		m := newCallerMem(c.Spec)
		var st *trie.SlimTrie
		var err error
		monitored("NewSlimTrie", m.cost(), m.check, func() {
			st, err = trie.NewSlimTrie(encoderOf(c.Spec.Enc), m.keys, m.vals, m.opts...)
		})
		res.Counters["fault.monitor_at_yield_inside_build"] += monitorEvals
		if bad := m.check(); bad != "" {
			fail("caller-memory-modified", "NewSlimTrie", fmt.Sprintf("after NewSlimTrie on %s: %s", c.id(), bad), "", "", 0)
		}
		// queries and Marshal on the built trie must not touch caller memory either
		if viol == nil && st != nil && err == nil {
			for ti := range c.Readers {
				for ui := range c.Readers[ti].Units {
					out, _ := runSoloCapped(st, &c.Readers[ti].Units[ui])
					_ = out
				}
			}
			if bad := m.check(); bad != "" {
				fail("caller-memory-modified", "reads-after-build", fmt.Sprintf("after reading from the trie built on %s: %s", c.id(), bad), "", "", 0)
			}
		}
		// "... nor alias": once the trie is built the caller recycles everything
		// it passed in (keys slice, values and the record buffer they are cut
		// from, option slice and the bools it points to). A twin built from
		// private copies of the same input gives the reference answers.
		if viol == nil && st != nil && err == nil {
			m2 := newCallerMem(c.Spec)
			var twin *trie.SlimTrie
			var terr error
			func() {
				defer func() {
					if r := recover(); r != nil {
						terr = fmt.Errorf("panic: %v", r)
					}
				}()
				twin, terr = trie.NewSlimTrie(encoderOf(c.Spec.Enc), m2.keys, m2.vals, m2.opts...)
			}()
			if terr == nil && twin != nil {
				refs, _ := soloRefs(twin, c.Readers)
				refBytes, _ := safeMarshal(twin)
				m.recycle(NewRng(scn.RunSeed^0xb11d), c.Pattern)
				res.Counters["fault.build_inputs_recycled_after_build"]++
				post, _ := soloRefs(st, c.Readers)
				for k, r := range refs {
					if post[k].out != r.out && !soloCapped(post[k].out) && !soloCapped(r.out) {
						fail("answers-changed-after-build-input-overwritten", "unit", fmt.Sprintf("build %s: after the caller overwrote the keys, values and options it had passed to NewSlimTrie (%s), %s differs from a twin built from private copies of the same input", c.id(), c.Pattern, clip(k, 60)), r.out, post[k].out, 0)
						break
					}
				}
				if b, _ := safeMarshal(st); viol == nil && !bytes.Equal(b, refBytes) {
					fail("answers-changed-after-build-input-overwritten", "Marshal", fmt.Sprintf("build %s: after the caller overwrote what it had passed to NewSlimTrie (%s), Marshal() differs from the twin's", c.id(), c.Pattern), digest(refBytes), digest(b), 0)
				}
			}
		}
		// the same promise for the other builder of the library,
		// index.NewSlimIndex: the caller's item slice (and the spare capacity
		// behind it) is read, never reordered or written - also when the items
		// are rejected (out of order, duplicate key)
		if viol == nil && scn.RunSeed%3 == 0 && len(c.Spec.Keys) <= 5000 {
			n := len(c.Spec.Keys)
			store := make([]index.OffsetIndexItem, n, n+3)
			for i, k := range c.Spec.Keys {
				store[i] = index.OffsetIndexItem{Key: string(k), Offset: int64(i)*7 + 1}
			}
			variant := "sorted"
			vr := NewRng(scn.RunSeed ^ 0x1d7)
			if n >= 2 {
				switch vr.Intn(4) {
				case 1:
					i := vr.Intn(n - 1)
					store[i], store[i+1] = store[i+1], store[i]
					variant = "two-neighbours-swapped"
				case 2:
					store[vr.Intn(n-1)+1].Key = store[0].Key
					variant = "duplicate-key"
				case 3:
					for i := n - 1; i > 0; i-- {
						j := vr.Intn(i + 1)
						store[i], store[j] = store[j], store[i]
					}
					variant = "shuffled"
				}
			}
			for i := n; i < n+3; i++ {
				store[:n+3][i] = index.OffsetIndexItem{Key: "\xfe-beyond-len", Offset: -int64(i) - 99}
			}
			snap := append([]index.OffsetIndexItem{}, store[:n+3]...)
			chk := func() string {
				for i, it := range store[:n+3] {
					if it != snap[i] {
						where := "item"
						if i >= n {
							where = "spare capacity behind the item slice, element"
						}
						return fmt.Sprintf("%s %d of the caller's []OffsetIndexItem (%s input, %d items) was {%q %d}, is {%q %d}", where, i, variant, n, clip(snap[i].Key, 40), snap[i].Offset, clip(it.Key, 40), it.Offset)
					}
				}
				return ""
			}
			monitored("NewSlimIndex", int64(n+3)*24, chk, func() {
				_, _ = index.NewSlimIndex(store[:n], nil)
			})
			res.Counters["index_builds."+variant]++
			if bad := chk(); bad != "" {
				fail("caller-memory-modified", "NewSlimIndex", fmt.Sprintf("after index.NewSlimIndex on %s: %s", c.id(), bad), "", "", 0)
			}
		}
		res.Steps = yieldsInside
		res.NonTrivial = monitorEvals > 0
		if res.NonTrivial {
			res.Distinct = []uint64{hash64("build", c.id())}
		}

	case "load", "dualload", "marshal":
		stream, enc, err := c.streamAndEnc()
		if err != nil {
			res.Skipped = "stream_unavailable"
			return res
		}
		mkInst := func() *trie.SlimTrie {
			st := fresh(enc)
			if c.Reloaded {
				_ = st.Unmarshal(append([]byte{}, priorStreamFor2(enc)...))
			}
			if c.IndexHome {
				st = newIndexHome(st)
				res.Counters["probe.instance_lives_in_slimindex"]++
			}
			return st
		}
		// subject and twin are always produced the same way (same entry point,
		// same prior content, built vs loaded) so that a defect of the round
		// trip itself (C05) cannot be misattributed to C20.
		builtSubject := c.Kind == "marshal" && c.Spec != nil && scn.RunSeed%2 == 0
		mkLoaded := func(buf []byte) *trie.SlimTrie {
			if builtSubject {
				if b, err := c.Spec.build(); err == nil {
					return b
				}
				return nil
			}
			st := mkInst()
			if e, p := loadVia(st, c.Entry, buf); e != nil || p != "" {
				return nil
			}
			return st
		}
		twin := mkLoaded(append([]byte{}, stream...))
		if twin == nil {
			res.Skipped = "stream_does_not_load"
			return res
		}
		recordSoloSites = scn.Strat.Kind != "replay" && !scn.Strat.Resolved && c.Kind != "dualload"
		refs, total := soloRefs(twin, c.Readers)
		recordSoloSites = false
		profiles := coldProfiles(c.Readers, refs)
		if c.Kind != "dualload" {
			adaptToSync(&scn.Strat, profiles)
		}
		resolveSweep(&scn.Strat, c.Readers, profiles)
		refBytes, _ := safeMarshal(twin)
		featuresOf(refBytes).probes(res.Counters)
		other := priorStreamFor2(enc)
		srng := NewRng(scn.RunSeed ^ 0xc20)

		sim := newSim(scn.Strat, scn.Segs, total)
		check := func(who string, ti, ui int, u *Unit, out string, oracle string) {
			ref := refs[u.key()]
			if out == ref.out || sim.stop {
				return
			}
			if len(out) > 6 && (hasSuffix(out, "ABORT:budget") || hasSuffix(out, "ABORT:violation")) {
				return
			}
			fail(oracle, "unit="+u.Kind, fmt.Sprintf("%s %s: %s task %d unit %d %s differs from a twin loaded from a private copy", c.Kind, c.id(), who, ti, ui, u.short()), ref.out, out, sim.steps)
			sim.stop, sim.stopWhy = true, "violation"
		}
		addReaders := func(st *trie.SlimTrie, oracle string, pending *int) {
			for ti := range c.Readers {
				ti := ti
				units := c.Readers[ti].Units
				*pending += len(units)
				sim.addTask(fmt.Sprintf("reader%d", ti), func(t *Task) {
					for ui := range units {
						if sim.stop {
							break
						}
						sim.yield0()
						u := &units[ui]
						if soloCapped(refs[u.key()].out) {
							*pending--
							continue
						}
						sim.enterUnit(t, u.Kind, unitCap(refs[u.key()].steps))
						out := u.run(st, sim.yield0)
						sim.exitUnit(t)
						*pending--
						check("reader", ti, ui, u, out, oracle)
					}
				})
			}
		}
		scribbled := int64(0)
		scribbledWhilePending := int64(0)
		firstSite := -2
		addScribbler := func(name string, buf func() []byte, pending *int) {
			sim.addTask(name, func(t *Task) {
				for i := 0; i < c.Delay; i++ {
					sim.yield0()
				}
				b := buf()
				if b == nil {
					return
				}
				b = b[:cap(b)]
				chunk := c.Chunk
				if chunk <= 0 {
					chunk = len(b)
				}
				if chunk < len(b)/2000 {
					chunk = len(b) / 2000 // bound the number of scribble steps on multi-megabyte buffers
				}
				for off := 0; off < len(b); off += chunk {
					scribble(b, off, off+chunk, c.Pattern, srng, other)
					scribbled++
					if *pending > 0 {
						scribbledWhilePending++
						if firstSite == -2 {
							firstSite = -1
							for _, o := range sim.tasks {
								if o != t && !o.done && o.inUnit {
									firstSite = o.lastSite
									break
								}
							}
						}
					}
					sim.yield0()
				}
			})
		}

		switch c.Kind {
		case "load":
			content, spare := stream, 64
			if c.Segments {
				content = append(append([]byte{}, stream...), other...)
				spare += len(stream)
				res.Counters["fault.second_stream_behind_the_loaded_one"]++
			}
			pb := newPoolBuf(content, spare)
			st := mkInst()
			var lerr error
			var lpan string
			monitored("Unmarshal", int64(len(pb.arena)), pb.Check, func() { lerr, lpan = loadVia(st, c.Entry, pb.Buf) })
			res.Counters["fault.monitor_at_yield_inside_load"] += monitorEvals
			if bad := pb.Check(); bad != "" {
				fail("input-modified", "Unmarshal", fmt.Sprintf("Unmarshal of %s modified its input buffer: %s", c.id(), bad), "", "", 0)
			}
			if lerr != nil || lpan != "" {
				res.Skipped = "load_failed_on_pool_buffer"
				return res
			}
			if viol == nil {
				pending := 0
				addReaders(st, "answers-changed-after-input-overwritten", &pending)
				addScribbler("scribbler", func() []byte { return pb.Buf }, &pending)
				sim.run()
				if viol == nil && !sim.stop {
					post, _ := soloRefs(st, c.Readers)
					for k, r := range refs {
						if post[k].out != r.out && !soloCapped(post[k].out) && !soloCapped(r.out) {
							fail("answers-changed-after-input-overwritten", "post-scribble", fmt.Sprintf("load %s: after the input buffer was overwritten (%s), %s alone differs from a twin loaded from a private copy", c.id(), c.Pattern, clip(k, 60)), r.out, post[k].out, sim.steps)
							break
						}
					}
					if b, _ := safeMarshal(st); viol == nil && !bytes.Equal(b, refBytes) {
						fail("answers-changed-after-input-overwritten", "Marshal-post-scribble", fmt.Sprintf("load %s: after the input buffer was overwritten (%s), Marshal() differs from the twin's", c.id(), c.Pattern), digest(refBytes), digest(b), sim.steps)
					}
					if c.Segments && viol == nil {
						// the recycled region behind the first stream now holds a copy
						// of the FIRST stream: whoever loads it must get what the twin
						// got from a private copy of the same bytes
						region := pb.Buf[len(stream):cap(pb.Buf)]
						if len(region) >= len(stream) {
							copy(region, stream)
							second := mkInst()
							var e2 error
							var p2 string
							withStepCap(60_000_000, func() { e2, p2 = loadVia(second, c.Entry, region[:len(stream)]) })
							res.Counters["fault.recycled_region_loaded_into_second_instance"]++
							if e2 != nil || p2 != "" {
								fail("answers-changed-after-input-overwritten", "second-load-from-recycled-region", fmt.Sprintf("load %s: the buffer held a second stream behind the loaded one; after it was recycled a valid stream placed there does not load: err=%v panic=%s", c.id(), e2, p2), "", "", sim.steps)
							} else {
								post2, _ := soloRefs(second, c.Readers)
								for k, r := range refs {
									if post2[k].out != r.out && !soloCapped(post2[k].out) && !soloCapped(r.out) {
										fail("answers-changed-after-input-overwritten", "second-load-from-recycled-region", fmt.Sprintf("load %s: the buffer held a second stream behind the loaded one; after it was recycled, an instance loaded from the stream now stored there answers %s differently from a twin loaded from a private copy of the same bytes (the library kept something of the old region)", c.id(), clip(k, 60)), r.out, post2[k].out, sim.steps)
										break
									}
								}
							}
						}
					}
				}
			}
		case "dualload":
			pb := newPoolBuf(stream, 64)
			insts := []*trie.SlimTrie{mkInst(), mkInst()}
			loaded := [2]bool{}
			dlPeriod, dlNext, dlEvals := int64(every), int64(every), int64(0)
			dlQuarter := 1_000_000_000 / int64(len(pb.arena)+1)
			if dlQuarter < 16 {
				dlQuarter = 16
			}
			sim.monitors = append(sim.monitors, func(site int) {
				yieldsInside++
				if yieldsInside == dlNext {
					dlEvals++
					if dlEvals%dlQuarter == 0 {
						dlPeriod *= 2
					}
					dlNext = yieldsInside + dlPeriod
					monitorEvals++
					if bad := pb.Check(); bad != "" && viol == nil {
						fail("caller-memory-modified-during-call", "Unmarshal", fmt.Sprintf("dualload %s: while two loaders read the same buffer, at %s: %s", c.id(), siteName(site), bad), "", "", sim.steps)
						sim.stop, sim.stopWhy = true, "violation"
					}
				}
			})
			for k := 0; k < 2; k++ {
				k := k
				sim.addTask(fmt.Sprintf("loader%d", k), func(t *Task) {
					defer func() {
						if r := recover(); r != nil {
							if _, ok := r.(abortUnit); !ok {
								panic(r)
							}
						}
					}()
					sim.enterUnit(t, "unmarshal", 0)
					e, p := loadVia(insts[k], c.Entry, pb.Buf)
					sim.exitUnit(t)
					loaded[k] = e == nil && p == ""
				})
			}
			sim.run()
			res.Counters["fault.concurrent_second_loader"]++
			res.Counters["fault.monitor_at_yield_inside_load"] += monitorEvals
			if viol == nil && !sim.stop {
				for k := 0; k < 2; k++ {
					if !loaded[k] {
						fail("dualload-diverged", "Unmarshal", fmt.Sprintf("dualload %s: loader %d failed although the stream loads alone", c.id(), k), "", "", sim.steps)
						break
					}
					post, _ := soloRefs(insts[k], c.Readers)
					for key, r := range refs {
						if post[key].out != r.out && !soloCapped(post[key].out) && !soloCapped(r.out) {
							fail("dualload-diverged", "unit", fmt.Sprintf("dualload %s: instance of loader %d answers %s differently from a twin loaded alone from a private copy", c.id(), k, clip(key, 60)), r.out, post[key].out, sim.steps)
							break
						}
					}
					if b, _ := safeMarshal(insts[k]); viol == nil && !bytes.Equal(b, refBytes) {
						fail("dualload-diverged", "Marshal", fmt.Sprintf("dualload %s: instance of loader %d marshals differently from the twin", c.id(), k), digest(refBytes), digest(b), sim.steps)
					}
				}
				if bad := pb.Check(); bad != "" {
					fail("input-modified", "Unmarshal", fmt.Sprintf("dualload %s: input buffer modified: %s", c.id(), bad), "", "", 0)
				}
			}
		case "marshal":
			st := mkLoaded(append([]byte{}, stream...))
			if st == nil {
				res.Skipped = "stream_does_not_load"
				return res
			}
			var out1 []byte
			monitored("Marshal", 1, func() string { return "" }, func() { out1, _ = st.Marshal() })
			if !bytes.Equal(out1, refBytes) {
				res.Skipped = "marshal_differs_from_twin_before_any_fault"
				return res
			}
			pending := 0
			addReaders(st, "answers-changed-after-output-overwritten", &pending)
			addScribbler("scribbler", func() []byte { return out1 }, &pending)
			pending += 3
			sim.addTask("marshaller", func(t *Task) {
				defer func() {
					if r := recover(); r != nil {
						if _, ok := r.(abortUnit); !ok {
							panic(r)
						}
					}
				}()
				for round := 0; round < 3 && !sim.stop; round++ {
					sim.yield0()
					sim.enterUnit(t, "marshal", 0)
					a, _ := st.Marshal()
					sim.exitUnit(t)
					pending--
					if !bytes.Equal(a, refBytes) {
						fail("marshal-aliased", "Marshal", fmt.Sprintf("marshal %s: Marshal() called while an earlier returned buffer is being overwritten (%s) differs from the reference bytes (first difference at offset %d)", c.id(), c.Pattern, firstDiff(a, refBytes)), digest(refBytes), digest(a), sim.steps)
						sim.stop, sim.stopWhy = true, "violation"
						return
					}
					snap := append([]byte{}, a...)
					sim.yield0()
					sim.enterUnit(t, "protomarshal", 0)
					b, _ := proto.Marshal(st)
					sim.exitUnit(t)
					if !bytes.Equal(a, snap) {
						fail("marshal-buffer-reused", "Marshal", fmt.Sprintf("marshal %s: a buffer returned by Marshal() changed when Marshal was called again", c.id()), digest(snap), digest(a), sim.steps)
						sim.stop, sim.stopWhy = true, "violation"
						return
					}
					// recycle both buffers
					scribble(a[:cap(a)], 0, cap(a), c.Pattern, srng, other)
					scribble(b[:cap(b)], 0, cap(b), "invert", srng, other)
					scribbled += 2
				}
			})
			sim.run()
			if viol == nil && !sim.stop {
				post, _ := soloRefs(st, c.Readers)
				for k, r := range refs {
					if post[k].out != r.out && !soloCapped(post[k].out) && !soloCapped(r.out) {
						fail("answers-changed-after-output-overwritten", "post-scribble", fmt.Sprintf("marshal %s: after buffers returned by Marshal() were overwritten (%s), %s alone differs from the twin", c.id(), c.Pattern, clip(k, 60)), r.out, post[k].out, sim.steps)
						break
					}
				}
				if b, _ := safeMarshal(st); viol == nil && !bytes.Equal(b, refBytes) {
					fail("marshal-aliased", "Marshal-post-scribble", fmt.Sprintf("marshal %s: after returned buffers were overwritten (%s), a later Marshal() differs from the reference bytes", c.id(), c.Pattern), digest(refBytes), digest(b), sim.steps)
				}
			}
		}
		if sim.deadlock && viol == nil {
			res.Counters["deadlocked_runs"]++
		}
		res.Steps = sim.steps + yieldsInside
		res.Segs = trimSegs(sim.segs)
		res.EvHash = sim.evHash
		res.SitePairs = sim.sitePairs
		res.Counters["switches"] += int64(sim.switches)
		res.Counters["fault.preemption_inside_unit"] += int64(sim.preemptIn)
		res.Counters["fault.buffer_recycled_"+c.Pattern] += scribbled
		res.Counters["probe.scribble_while_units_pending"] += scribbledWhilePending
		res.Counters["strategy."+scn.Strat.Kind]++
		if firstSite >= 0 {
			res.Counters["probe.scribble_landed_mid_unit"]++
		}
		if sim.stop && sim.stopWhy == "budget" {
			res.Counters["budget_stopped_runs"]++
		}
		res.NonTrivial = monitorEvals > 0 || scribbledWhilePending > 0
		if res.NonTrivial {
			instant := "after"
			if scribbledWhilePending > 0 {
				instant = fmt.Sprintf("pending/delay%d", c.Delay)
			}
			res.Distinct = []uint64{hash64(c.Kind, c.id(), c.Pattern, fmt.Sprint(c.Chunk), instant, fmt.Sprint(firstSite), c.Entry)}
		}
	default:
		res.Skipped = "unknown_kind"
		return res
	}
	res.Viol = viol
	nUnits := 0
	for _, t := range c.Readers {
		nUnits += len(t.Units)
	}
	res.Sample = map[string]interface{}{
		"run_seed": scn.RunSeed, "kind": c.Kind, "world": c.id(), "pattern": c.Pattern, "chunk": c.Chunk, "scribbler_delay": c.Delay,
		"entry": c.Entry, "reader_tasks": len(c.Readers), "units": nUnits, "monitor_evaluations_inside_call": monitorEvals,
		"yields_inside_call": yieldsInside, "strategy": scn.Strat.String(), "steps": res.Steps,
	}
	return res
}

func hasSuffix(s, suf string) bool { return len(s) >= len(suf) && s[len(s)-len(suf):] == suf }

func priorStreamFor2(enc string) []byte { return priorStreamFor(enc) }

// ---------------------------------------------------------------------------
// race lane: the scribbler runs truly concurrently with the readers; a race
// report means the instance still reads caller memory.

func raceC20(scn *Scenario) *RunResult {
	c := scn.C20
	res := &RunResult{Counters: map[string]int64{}}
	if c.Kind == "build" || c.Kind == "dualload" {
		res.Skipped = "kind_not_in_race_lane"
		return res
	}
	stream, enc, err := c.streamAndEnc()
	if err != nil {
		res.Skipped = "stream_unavailable"
		return res
	}
	twin, st := fresh(enc), fresh(enc)
	if e, p := loadVia(twin, "direct", append([]byte{}, stream...)); e != nil || p != "" {
		res.Skipped = "stream_does_not_load"
		return res
	}
	refs, _ := soloRefs(twin, c.Readers)
	tasks := make([]TaskSpec, len(c.Readers))
	for ti := range c.Readers {
		for _, u := range c.Readers[ti].Units {
			if !soloCapped(refs[u.key()].out) {
				tasks[ti].Units = append(tasks[ti].Units, u)
			}
		}
	}
	pb := newPoolBuf(stream, 64)
	if e, p := loadVia(st, c.Entry, pb.Buf); e != nil || p != "" {
		res.Skipped = "load_failed_on_pool_buffer"
		return res
	}
	target := pb.Buf
	if c.Kind == "marshal" {
		target, _ = st.Marshal()
	}
	srng := NewRng(scn.RunSeed ^ 0xc20)
	outs := make([][]string, len(tasks))
	var wg sync.WaitGroup
	start := make(chan struct{})
	for ti := range tasks {
		ti := ti
		wg.Add(1)
		go func() {
			defer wg.Done()
			<-start
			outs[ti] = runTaskFree(st, tasks[ti].Units, 3)
		}()
	}
	wg.Add(1)
	go func() {
		defer wg.Done()
		<-start
		b := target[:cap(target)]
		for rep := 0; rep < 3; rep++ {
			scribble(b, 0, len(b), c.Pattern, srng, nil)
		}
	}()
	if c.Kind == "marshal" {
		wg.Add(1)
		go func() {
			defer wg.Done()
			<-start
			for i := 0; i < 3; i++ {
				b, _ := st.Marshal()
				scribble(b, 0, len(b), "zero", srng, nil)
			}
		}()
	}
	close(start)
	wg.Wait()
	res.Counters["race.goroutines"] += int64(len(tasks) + 1)
	for ti := range tasks {
		for ui := range tasks[ti].Units {
			u := &tasks[ti].Units[ui]
			if outs[ti][ui] != refs[u.key()].out && res.Viol == nil {
				res.Viol = &Violation{Prop: "C20", Oracle: "answers-changed-after-input-overwritten", Where: "unit=" + u.Kind,
					Detail:   fmt.Sprintf("race lane: %s %s: %s differs from the twin while the caller's buffer is overwritten concurrently", c.Kind, c.id(), u.short()),
					Expected: clip(refs[u.key()].out, 400), Got: clip(outs[ti][ui], 400)}
			}
		}
	}
	res.NonTrivial = true
	return res
}
