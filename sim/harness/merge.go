package main

import (
	"bufio"
	"encoding/json"
	"flag"
	"fmt"
	"os"
	"sort"
	"strings"
)

// merge: partial worker results -> evidence file, VIOLATION / KNOWN-FINDING
// lines, exit code (0 held, 1 violation, 2 machinery trouble).

type knownEntry struct {
	kind, prop, oracle, where, text string
}

func readKnown(path string) []knownEntry {
	var out []knownEntry
	f, err := os.Open(path)
	if err != nil {
		return nil
	}
	defer f.Close()
	sc := bufio.NewScanner(f)
	for sc.Scan() {
		l := strings.TrimSpace(sc.Text())
		if l == "" || strings.HasPrefix(l, "#") {
			continue
		}
		e := knownEntry{text: l}
		switch {
		case strings.HasPrefix(l, "known:"):
			e.kind = "known"
		case strings.HasPrefix(l, "fixed:"):
			e.kind = "fixed"
		default:
			continue
		}
		for _, f := range strings.Fields(l) {
			if strings.HasPrefix(f, "property=") {
				e.prop = strings.TrimPrefix(f, "property=")
			}
			if strings.HasPrefix(f, "oracle=") {
				e.oracle = strings.TrimPrefix(f, "oracle=")
			}
			if strings.HasPrefix(f, "where=") {
				e.where = strings.TrimPrefix(f, "where=")
			}
		}
		out = append(out, e)
	}
	return out
}

var propMeta = map[string]struct {
	level, rule string
	assume      []string
}{
	"C11": {"exploration",
		"one evaluation = one simulated run: a generated subject (built / loaded / loaded over prior content / archived legacy stream) shared by 2..32 reader tasks with generated unit lists, executed under one seeded schedule (random-walk, PCT, random-quantum round-robin, API-boundary). Non-trivial = at least one preemption strictly inside a unit while another task is parked inside a unit, or at least one unit executed while another task is parked in the middle of a unit (sweep strategy); distinct = distinct hash of the (task, unit kind, site, next task) sequence at context switches, counted over non-trivial runs only. Race-lane workloads are counted separately under race_lane.",
		[]string{"interleavings are explored at statement granularity under sequential consistency; finer effects are left to the uncontrolled -race lane",
			"openacid/low bitstr.StrCmpUpto is patched in the scratch copy (unsafe header cast removed): failures that exist only because of that UB are invisible",
			"a clean batch is evidence, not proof"}},
	"C20": {"exploration",
		"one evaluation = one simulated scenario of kind build / load / marshal / dualload with caller memory placed in a canary-guarded arena, snapshot monitors evaluated at yields inside NewSlimTrie/Unmarshal/Marshal, and a scribbler task recycling the buffer under the seeded scheduler while reader tasks run. Non-trivial = a monitor was evaluated at >= 1 yield inside the call under test or a scribble landed while units were still to run; distinct = distinct (kind, stream id / shape, pattern, chunking, instant class, preempted site) tuples over non-trivial runs.",
		[]string{"aliasing is observed through answers, Marshal output and the race lane, not by pointer inspection",
			"openacid/low bitstr.StrCmpUpto patched in the scratch copy", "a clean batch is evidence, not proof"}},
	"C05": {"exploration",
		"one evaluation = one instance lifecycle: 1..3 generated inputs built under identity and two PRNG map-iteration permutations (byte equality, Size, proto.Marshal agreement), streams written to and read back from the simulated disk, then a history of length 1..4 over {Unmarshal, proto.Unmarshal, Reset, legacy load, failed load} on an instance that starts fresh / built / loaded; after every successful current-format load the instance is compared with its source on the full unit battery and re-marshalled; after every successful load of an archived stream the instance is compared (answers, Marshal bytes, proto.Size) with a fresh instance given the same bytes and its Marshal output is round-tripped. Non-trivial = the map-order seam was consulted with >= 2 keys under two different permutations, or a checked load went into an instance holding different content; distinct = distinct (shape fingerprint, history string, start state) tuples over non-trivial runs.",
		[]string{"clause (a) 'answers identically' is input sampling, used as the oracle of the history runs; it is not an exhaustive statement over tries",
			"map order is owned only inside slim's packages (dependencies keep the runtime's order)",
			"openacid/low bitstr.StrCmpUpto patched in the scratch copy", "a clean batch is evidence, not proof"}},
	"C07": {"fault_enumeration",
		"one evaluation = one fault execution: a valid stream (generated current-format or archived legacy) is cut at one byte offset (writer crash, strict prefix survives) or relabelled with one foreign version string, then loaded through st.Unmarshal or proto.Unmarshal into an instance with a prior state drawn from {fresh, built, loaded, legacy-loaded, reset, previously rejected}; oracle: error (ErrIncompatible for versions), no panic, lookups and scans empty afterwards. In 60% of the scenarios 1-3 of the faults are executed once more by tasks of the seeded scheduler next to 1-2 loads of the complete stream (concurrent restart, separate instances) and again alone afterwards; those executions are evaluations too. Non-trivial = cut > 0 into an instance that held content, or a cut inside the 2nd/3rd section of a three-section stream, or a version fault on an instance that held content; distinct = distinct (stream id, fault, prior-state kind, entry point).",
		[]string{"within one stream the cut sweep is exhaustive (quick: streams <= 4 KiB; thorough: <= 64 KiB) and boundary-biased plus sampled above; across streams and prior states it is seeded sampling",
			"only truncation and version relabelling are injected: the format has no checksum and the property promises nothing about other corruption",
			"openacid/low bitstr.StrCmpUpto patched in the scratch copy"}},
}

func cmdMerge(args []string) {
	fs := flag.NewFlagSet("merge", flag.ExitOnError)
	prop := fs.String("prop", "", "property")
	tier := fs.String("tier", "quick", "tier")
	seed := fs.Uint64("seed", 1, "seed")
	evid := fs.String("evidence", "", "evidence file to write")
	known := fs.String("known", "", "known findings file")
	wall := fs.Float64("wall", 0, "wall seconds of the whole check")
	instr := fs.String("instrument", "", "instrument.json")
	expect := fs.Int("expect", 0, "number of partial files expected")
	died := fs.Int("died", 0, "workers that died without a partial result (violations of the others are still reported; without one the check is exit 2)")
	fs.StringVar(&treeSHA, "tree", "", "tree fingerprint")
	fs.Parse(args)

	var parts []*Stats
	for _, p := range fs.Args() {
		b, err := os.ReadFile(p)
		if err != nil {
			fmt.Fprintln(os.Stderr, "merge: missing partial result", p, "(a worker died: machinery trouble, not a verdict)")
			os.Exit(2)
		}
		var s Stats
		if err := json.Unmarshal(b, &s); err != nil {
			fmt.Fprintln(os.Stderr, "merge:", p, err)
			os.Exit(2)
		}
		parts = append(parts, &s)
	}
	if len(parts) == 0 || (*expect > 0 && len(parts) != *expect) {
		fmt.Fprintf(os.Stderr, "merge: %d partial results, expected %d\n", len(parts), *expect)
		os.Exit(2)
	}

	meta := propMeta[*prop]
	distinct := map[uint64]struct{}{}
	groups := map[string]int64{}
	pairs := map[[2]int]struct{}{}
	counters := map[string]int64{}
	skipped := map[string]int64{}
	var evals, runs, steps, nontriv int64
	var samples []interface{}
	var viols []ViolationRef
	var premise []string
	truncated := false
	watchdogs := 0
	maxWall := 0.0
	race := map[string]int64{}
	for _, s := range parts {
		if s.Watchdog {
			watchdogs++
		}
		if s.Lane == "racesim" {
			race["controlled_runs"] += s.Evals
			race["controlled_steps"] += s.Steps
			race["reports"] += int64(len(s.Violations))
			viols = append(viols, s.Violations...)
			premise = append(premise, s.Premise...)
			continue
		}
		if s.Lane == "race" {
			race["workloads"] += s.Evals
			race["reports"] += int64(len(s.Violations))
			for k, v := range s.Counters {
				if strings.HasPrefix(k, "race.") {
					race[strings.TrimPrefix(k, "race.")] += v
				}
			}
			viols = append(viols, s.Violations...)
			premise = append(premise, s.Premise...)
			if s.WallS > maxWall {
				maxWall = s.WallS
			}
			continue
		}
		runs += s.Runs
		evals += s.Evals
		steps += s.Steps
		nontriv += s.NonTrivial
		for _, h := range s.Distinct {
			distinct[h] = struct{}{}
		}
		for _, p := range s.SitePairs {
			pairs[p] = struct{}{}
		}
		for g, n := range s.Groups {
			if n > groups[g] {
				groups[g] = n
			}
		}
		for k, v := range s.Counters {
			counters[k] += v
		}
		for k, v := range s.Skipped {
			skipped[k] += v
		}
		if len(samples) < 3 {
			for _, x := range s.Samples {
				if len(samples) < 3 {
					samples = append(samples, x)
				}
			}
		}
		viols = append(viols, s.Violations...)
		premise = append(premise, s.Premise...)
		truncated = truncated || s.Truncated
		if s.WallS > maxWall {
			maxWall = s.WallS
		}
	}

	sweepSites := 0
	for p := range pairs {
		if p[1] == -1000 {
			sweepSites++
		}
	}
	nDistinct := int64(len(distinct))
	for _, n := range groups {
		nDistinct += n
	}

	// split counters into groups
	group := func(prefix string) map[string]int64 {
		m := map[string]int64{}
		for k, v := range counters {
			if strings.HasPrefix(k, prefix) {
				m[strings.TrimPrefix(k, prefix)] = v
			}
		}
		return m
	}
	faults := group("fault.")
	probes := group("probe.")
	strategies := group("strategy.")
	sources := group("source.")
	overlaps := group("overlap.")
	other := map[string]int64{}
	for k, v := range counters {
		known := false
		for _, p := range []string{"fault.", "probe.", "strategy.", "source.", "overlap."} {
			if strings.HasPrefix(k, p) {
				known = true
			}
		}
		if !known {
			other[k] = v
		}
	}

	// known findings
	kn := readKnown(*known)
	var unknown []ViolationRef
	observedKnown := map[int]bool{}
	for _, v := range viols {
		matched := false
		for i, e := range kn {
			if e.kind == "known" && e.prop == v.Viol.Prop && e.oracle == v.Viol.Oracle && e.where == v.Viol.Where {
				matched = true
				observedKnown[i] = true
			}
		}
		if !matched {
			unknown = append(unknown, v)
		}
	}

	var instrInfo interface{}
	if *instr != "" {
		if b, err := os.ReadFile(*instr); err == nil {
			json.Unmarshal(b, &instrInfo)
		}
	}

	rph := 0.0
	if maxWall > 0 {
		rph = float64(runs) / maxWall * 3600
	}
	cov := map[string]interface{}{
		"evaluations":                 evals,
		"distinct_nontrivial":         nDistinct,
		"nontrivial_runs":             nontriv,
		"rule":                        meta.rule,
		"samples":                     samples,
		"exhaustive":                  false,
		"simulated_runs":              runs,
		"runs_per_hour":               int64(rph),
		"seeds":                       []uint64{*seed},
		"logical_steps":               steps,
		"simulated_time_note":         "openacid/slim has no clock, timer or deadline; simulated time is reported as logical steps (yields executed under the simulator)",
		"faults_fired":                faults,
		"probes":                      probes,
		"strategies":                  strategies,
		"sources":                     sources,
		"distinct_schedules_or_cases": nDistinct,
		"distinct_groups":             len(groups),
		"preemption_site_pairs":       len(pairs) - sweepSites,
		"sweep_target_sites_distinct": sweepSites,
		"unit_overlap_pairs":          overlaps,
		"other_counters":              other,
		"skipped_runs":                skipped,
		"premise_failed":              len(premise),
		"budget_truncated":            truncated,
		"watchdog_trips":              watchdogs,
		"workers":                     len(parts),
		"instrumentation":             instrInfo,
		"tree_sha256":                 treeSHA,
		"components": map[string]interface{}{
			"real":    []string{"github.com/openacid/slim/trie, array, encode, index (instrumented source of /repo's current working tree)", "golang/protobuf", "openacid/low", "openacid/must", "openacid/errors", "blang/semver"},
			"patched": []string{"openacid/low bitstr.StrCmpUpto: unsafe string->slice header cast replaced by a copy (scratch copy only)"},
			"stub": []string{"disk (byte arrays with a durable prefix)", "buffer pool (canary-guarded arenas)", "task scheduler (seeded, cooperative)", "map iteration order (PRNG permutation seam)",
				"go statements, channels, select, WaitGroup, Cond, Sleep of the code under test (emulated under the scheduler; instrumentation.go_statements says whether the tree has any)",
				"DataReader of index.SlimIndex (the record at an offset is the offset and the key)"},
			"durable_artifacts": "97 archived streams of slim 0.5.0-0.5.10 in trie/testdata, read in place",
		},
	}
	if len(race) > 0 {
		cov["race_lane"] = race
		cov["race_lane_note"] = "controlled_runs: the same kind of simulated scenarios executed under the seeded scheduler in a -race build whose harness is NOT race-instrumented and passes the baton through a plain variable (no happens-before edges between tasks): a report is deterministic and replayable. workloads: free-running goroutines, schedule NOT controlled (monitoring), kept for truly parallel execution."
	}
	ev := map[string]interface{}{
		"property_id": *prop,
		"tier":        *tier,
		"seed":        int64(*seed),
		"level":       meta.level,
		"coverage":    cov,
		"assumptions": meta.assume,
		"wall_s":      *wall,
		"violations":  len(unknown),
	}
	if *evid != "" {
		if err := writeJSON(*evid, ev); err != nil {
			fmt.Fprintln(os.Stderr, "merge:", err)
			os.Exit(2)
		}
	}

	fmt.Printf("%s %s seed=%d: %d runs, %d evaluations, %d distinct non-trivial, %d logical steps, %.0f runs/hour, wall %.1fs\n",
		*prop, *tier, *seed, runs, evals, nDistinct, steps, rph, *wall)
	if len(race) > 0 {
		fmt.Printf("  race lanes: %d controlled runs + %d free-running workloads, %d reports\n", race["controlled_runs"], race["workloads"], race["reports"])
	}
	keys := make([]string, 0, len(faults))
	for k := range faults {
		keys = append(keys, k)
	}
	sort.Strings(keys)
	for _, k := range keys {
		fmt.Printf("  fault %-40s fired %d\n", k, faults[k])
	}

	for i, e := range kn {
		if e.kind == "known" && e.prop == *prop {
			suffix := ""
			if !observedKnown[i] {
				suffix = " (listed; not re-observed in this run)"
			}
			fmt.Printf("KNOWN-FINDING: property=%s %s%s\n", e.prop, strings.TrimSpace(strings.TrimPrefix(e.text, "known:")), suffix)
		}
	}
	if len(premise) > 0 {
		fmt.Fprintf(os.Stderr, "merge: premise failed in %d runs (identical instances disagree when run alone), e.g. %s\n", len(premise), premise[0])
	}
	if len(unknown) > 0 {
		seen := map[string]bool{}
		shown := 0
		for _, v := range unknown {
			if seen[v.Replay] {
				continue
			}
			seen[v.Replay] = true
			if shown++; shown > 6 {
				continue
			}
			fmt.Printf("  %s\n", v.Viol)
			fmt.Printf("VIOLATION property=%s replay=%s\n", *prop, v.Replay)
		}
		if shown > 6 {
			fmt.Printf("  ... and %d more violating runs (replay files next to the ones above)\n", shown-6)
		}
		os.Exit(1)
	}
	if len(premise) > 0 {
		os.Exit(2)
	}
	if *died > 0 {
		fmt.Fprintf(os.Stderr, "merge: %d worker(s) died without a result and the others found no violation: machinery trouble, exit 2 (not a verdict)\n", *died)
		os.Exit(2)
	}
	if watchdogs > 0 {
		fmt.Fprintf(os.Stderr, "merge: %d worker(s) were stopped by the watchdog (a call did not return outside the simulator's control): exit 2, not a verdict\n", watchdogs)
		os.Exit(2)
	}
	if evals == 0 {
		fmt.Fprintln(os.Stderr, "merge: nothing was evaluated")
		os.Exit(2)
	}
	os.Exit(0)
}
