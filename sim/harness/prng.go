package main

// One integer decides everything: every choice of a run is drawn from an Rng
// derived (splitmix64) from VERIF_SEED, the property, the worker and the run
// number. xoshiro256** is implemented here so that replay does not depend on
// the Go release's math/rand.

type Rng struct{ s [4]uint64 }

func splitmix(x *uint64) uint64 {
	*x += 0x9e3779b97f4a7c15
	z := *x
	z = (z ^ (z >> 30)) * 0xbf58476d1ce4e5b9
	z = (z ^ (z >> 27)) * 0x94d049bb133111eb
	return z ^ (z >> 31)
}

func NewRng(seed uint64) *Rng {
	r := &Rng{}
	x := seed
	for i := range r.s {
		r.s[i] = splitmix(&x)
	}
	return r
}

// Mix derives an independent seed from a seed and a list of labels.
func Mix(seed uint64, labels ...uint64) uint64 {
	x := seed
	out := splitmix(&x)
	for _, l := range labels {
		x ^= l * 0xd6e8feb86659fd93
		out ^= splitmix(&x)
	}
	return out
}

func MixS(seed uint64, s string) uint64 {
	h := uint64(1469598103934665603)
	for i := 0; i < len(s); i++ {
		h ^= uint64(s[i])
		h *= 1099511628211
	}
	return Mix(seed, h)
}

func rotl(x uint64, k uint) uint64 { return (x << k) | (x >> (64 - k)) }

func (r *Rng) U64() uint64 {
	s := &r.s
	res := rotl(s[1]*5, 7) * 9
	t := s[1] << 17
	s[2] ^= s[0]
	s[3] ^= s[1]
	s[1] ^= s[2]
	s[0] ^= s[3]
	s[2] ^= t
	s[3] = rotl(s[3], 45)
	return res
}

func (r *Rng) Intn(n int) int {
	if n <= 1 {
		return 0
	}
	return int(r.U64() % uint64(n))
}

// Range returns an int in [lo, hi].
func (r *Rng) Range(lo, hi int) int {
	if hi <= lo {
		return lo
	}
	return lo + r.Intn(hi-lo+1)
}

func (r *Rng) Bool() bool { return r.U64()&1 == 1 }

func (r *Rng) Chance(p float64) bool {
	return float64(r.U64()>>11)/float64(1<<53) < p
}

func (r *Rng) Perm(n int) []int {
	p := make([]int, n)
	for i := range p {
		p[i] = i
	}
	for i := n - 1; i > 0; i-- {
		j := r.Intn(i + 1)
		p[i], p[j] = p[j], p[i]
	}
	return p
}

func (r *Rng) Bytes(n int) []byte {
	b := make([]byte, n)
	for i := 0; i < n; i += 8 {
		v := r.U64()
		for j := 0; j < 8 && i+j < n; j++ {
			b[i+j] = byte(v >> (8 * uint(j)))
		}
	}
	return b
}

func (r *Rng) PickS(xs ...string) string { return xs[r.Intn(len(xs))] }
func (r *Rng) PickI(xs ...int) int       { return xs[r.Intn(len(xs))] }

// WeightedPick returns an index with probability proportional to w[i].
func (r *Rng) WeightedPick(w []int) int {
	t := 0
	for _, x := range w {
		t += x
	}
	if t <= 0 {
		return 0
	}
	k := r.Intn(t)
	for i, x := range w {
		if k < x {
			return i
		}
		k -= x
	}
	return len(w) - 1
}
