package main

import (
	"fmt"

	"github.com/openacid/slim/encode"
	"github.com/openacid/slim/trie"
	"github.com/openacid/slim/xsimrt"
)

func main() {
	n := 0
	xsimrt.Hook = func(site int) { n++ }
	st, err := trie.NewSlimTrie(encode.I32{}, []string{"a", "b", "c"}, []int32{1, 2, 3}, trie.Opt{Complete: trie.Bool(true)})
	fmt.Println(st.Get("b"))
	fmt.Println(err, n)
}
