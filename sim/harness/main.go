package main

import (
	"context"
	"encoding/json"
	"flag"
	"fmt"
	xsimrt "github.com/openacid/slim/xsimrt"
	"os"
	"os/exec"
	"path/filepath"
	"runtime"
	"runtime/debug"
	"runtime/pprof"
	"strings"
	"sync/atomic"
	"time"
)

// harness run|replay|merge — see /verif/check.

var (
	treeSHA    string
	replayDir  string
	progress   int64 // bumped whenever a run completes (watchdog)
	simStepsWD int64
)

func main() {
	if len(os.Args) < 2 {
		fmt.Fprintln(os.Stderr, "usage: harness run|replay|merge ...")
		os.Exit(2)
	}
	switch os.Args[1] {
	case "run":
		cmdRun(os.Args[2:])
	case "replay":
		cmdReplay(os.Args[2:])
	case "merge":
		cmdMerge(os.Args[2:])
	case "determinism":
		cmdDeterminism(os.Args[2:])
	case "minimise-race":
		cmdMinimiseRace(os.Args[2:])
	default:
		fmt.Fprintln(os.Stderr, "unknown command", os.Args[1])
		os.Exit(2)
	}
}

func execute(scn *Scenario) *RunResult {
	ambReset(scn.RunSeed)
	freshBroken = ""
	res := executeInner(scn)
	if amb.spawned > 0 {
		res.EvHash ^= amb.hash
	}
	if os.Getenv("SLIMSIM_AMBDBG") != "" {
		fmt.Fprintf(os.Stderr, "AMBDBG run=%d strat=%s steps=%d ev=%016x spawned=%d switches=%d ambsteps=%d ambhash=%016x kids=%d", scn.Run, scn.Strat.Kind, res.Steps, res.EvHash, amb.spawned, amb.switches, amb.steps, amb.hash, len(amb.kids))
		for _, k := range amb.kids {
			fmt.Fprintf(os.Stderr, " [daemon=%v blocked=%v spin=%v done=%v]", k.daemon, k.blocked, k.spin, k.done)
		}
		var ms runtime.MemStats
		runtime.ReadMemStats(&ms)
		fmt.Fprintf(os.Stderr, " goroutines=%d heapMB=%d stackMB=%d sysMB=%d %s\n", runtime.NumGoroutine(), ms.HeapInuse>>20, ms.StackInuse>>20, ms.Sys>>20, clip(xsimrt.DebugChans(), 200))
	}
	if amb.spawned > 0 && res.Counters != nil {
		res.Counters["library_goroutines_started"] += amb.spawned
		res.Counters["library_goroutine_switches_outside_sim"] += amb.switches
	}
	if freshBroken != "" && res.Viol == nil {
		if scn.C05 != nil {
			res.Skipped = ""
			res.Viol = &Violation{Prop: "C05", Oracle: "fresh-receiver-not-empty", Where: "NewSlimTrie(nil-keys)",
				Detail: "state leaks between instances: after the loads of this (or an earlier) lifecycle, " + freshBroken + " - a load into one instance changed what another instance holds"}
		} else {
			res.Skipped = "fresh_receiver_unusable"
		}
	}
	atomic.AddInt64(&progress, 1)
	return res
}

func executeInner(scn *Scenario) *RunResult {
	var res *RunResult
	switch {
	case scn.Lane == "race":
		res = executeRace(scn)
	case scn.C11 != nil:
		res = executeC11(scn)
	case scn.C20 != nil:
		res = executeC20(scn)
	case scn.C05 != nil:
		res = executeC05(scn)
	case scn.C07 != nil:
		res = executeC07(scn)
	default:
		panic("empty scenario")
	}
	return res
}

func generate(prop, tier, lane string, seed uint64, worker, run int) *Scenario {
	runSeed := Mix(seed, hashStr(prop+"/"+lane), uint64(worker), uint64(run))
	r := NewRng(runSeed)
	scn := &Scenario{Prop: prop, Tier: tier, Lane: lane, Seed: seed, Worker: worker, Run: run, RunSeed: runSeed}
	if lane == "racesim" || lane == "race" {
		// the race-instrumented binary is an order of magnitude slower: the
		// thorough tier gives these lanes MORE runs, not bigger ones
		tier = "quick"
	}
	switch prop {
	case "C11":
		// a fixed small share of the runs gets a subject beyond 2^16 keys
		c11Huge = lane == "sim" && ((run == 2 && worker < 16) || (tier == "thorough" && run%400 == 399) || os.Getenv("SLIMSIM_C11_ALL_HUGE") != "")
		// the first runs of every worker process: nothing of the library has
		// been called yet, the readers are the first callers (cold start)
		c11ForceCold = run < 2
		scn.C11 = genC11(r, tier)
		c11ForceCold = false
		c11Huge = false
		scn.Strat = genStrategy(r)
	case "C20":
		scn.C20 = genC20(r, tier)
		scn.Strat = genStrategy(r)
	case "C05":
		scn.C05 = genC05(r, tier)
		if run == 1 || (tier == "thorough" && run%200 == 100) {
			// systematic transition matrix: all ordered pairs of 12 streams that
			// differ in options / values / emptiness, on one instance
			scn.C05 = genC05Matrix(r)
		}
		if run == 0 || (tier == "thorough" && run%500 == 250) {
			// a regular share of the lifecycles builds a large, very regular
			// trie between two builds of input 0 (process-history dependence)
			scn.C05.Poison = []string{"decimal5", "mixedbases"}[(worker+run/500)%2]
		}
		scn.Strat = genStrategy(r)
	case "C07":
		scn.C07 = genC07(r, tier, worker, run)
		scn.Strat = genStrategy(r)
	default:
		fmt.Fprintln(os.Stderr, "unknown property", prop)
		os.Exit(2)
	}
	if lane == "race" {
		scn.Strat = Strategy{Kind: "none"}
	}
	if lane == "racesim" && scn.C11 == nil && scn.C20 == nil {
		fmt.Fprintln(os.Stderr, "the controlled race lane serves C11 and C20 only")
		os.Exit(2)
	}
	return scn
}

// wdFlush, if set, is called by the watchdog before it kills the process: it
// saves what the worker has found so far (violations with their replay files
// are verdicts even if a later run hangs).
var wdFlush func()

// liveTicks is bumped by every hook the harness installs (plain increment,
// read racily by the watchdog): yields are being executed, i.e. the code under
// test is inside the simulator's control and bounded by its step caps.
var liveTicks int64

func startWatchdog(limit time.Duration) {
	go func() {
		last := int64(-1)
		lastChange := time.Now()
		for {
			time.Sleep(2 * time.Second)
			// progress = a run completed OR yields are being executed (a long
			// run on a loaded machine is not a hang; runaway loops inside
			// instrumented code are ended by the step caps, not by this)
			p := atomic.LoadInt64(&progress) + liveTicks
			if p != last {
				last, lastChange = p, time.Now()
				continue
			}
			if time.Since(lastChange) > limit {
				fmt.Fprintf(os.Stderr, "WATCHDOG: no run completed and no yield executed for %v; the code under test blocks or spins outside the simulator's control. Exit 2 (not a verdict).\n", limit)
				if wdFlush != nil {
					wdFlush()
				}
				os.Exit(2)
			}
		}
	}()
}

func cmdRun(args []string) {
	fs := flag.NewFlagSet("run", flag.ExitOnError)
	prop := fs.String("prop", "", "property id")
	tier := fs.String("tier", "quick", "quick|thorough")
	lane := fs.String("lane", "sim", "sim|race")
	seed := fs.Uint64("seed", 1, "VERIF_SEED")
	worker := fs.Int("worker", 0, "worker index")
	runs := fs.Int("runs", 10, "number of runs for this worker")
	out := fs.String("out", "", "partial result file")
	deadline := fs.Float64("deadline", 0, "wall-clock safety net in seconds (0 = none)")
	evlog := fs.Bool("evlog", false, "record per-run event-log hashes (determinism self-test)")
	maxViol := fs.Int("maxviol", 3, "stop after this many violations")
	from := fs.Int("from", 0, "first run index (diagnostics: execute runs from..runs-1 only)")
	fs.StringVar(&treeSHA, "tree", "", "fingerprint of the instrumented tree")
	fs.StringVar(&replayDir, "replays", "/verif/replays", "directory for replay files")
	fs.StringVar(&fixtureDir, "fixtures", fixtureDir, "directory of archived streams")
	sitesFile := fs.String("sites", "", "sites.txt of the instrumented tree")
	cur := fs.String("current", "", "race lane: file that always holds the scenario being executed")
	fs.Parse(args)
	if os.Getenv("SLIMSIM_SELFTEST_FAST") != "" {
		*maxViol = 1
	}
	loadSites(*sitesFile)

	gcOwned := *lane == "sim" && *prop != "C07"
	if *lane == "sim" && os.Getenv("SLIMSIM_KEEP_GOMAXPROCS") == "" {
		runtime.GOMAXPROCS(1)
	}
	if *lane == "racesim" {
		runtime.GOMAXPROCS(1)
		spinTransport = true
	}
	ambSetLane(*lane)
	if gcOwned {
		xsimrt.GCEveryOps = 50000
		// GC is taken out of the picture while a run executes (sync.Pool and
		// finalizer behaviour must not depend on when the collector happens to
		// run) and invoked explicitly between runs.
		debug.SetGCPercent(-1)
		debug.SetMemoryLimit(2 << 30)
	}
	if !gcOwned {
		// the collector runs as usual in these lanes; the soft limit makes it
		// work harder before the address-space limit of the worker is near (a
		// starved process lets the heap overshoot between two cycles)
		debug.SetMemoryLimit(3 << 30)
	}
	startWatchdog(180 * time.Second)
	if os.Getenv("SLIMSIM_MEMDBG") != "" {
		go func() {
			for {
				time.Sleep(2 * time.Second)
				var ms runtime.MemStats
				runtime.ReadMemStats(&ms)
				if f, err := os.Create(os.Getenv("SLIMSIM_MEMDBG") + "/heap.prof"); err == nil {
					pprof.WriteHeapProfile(f)
					f.Close()
				}
				fmt.Fprintf(os.Stderr, "MEMDBG goroutines=%d heapInuseMB=%d heapObjects=%d stackMB=%d sysMB=%d ticks=%d chans=%s\n", runtime.NumGoroutine(), ms.HeapInuse>>20, ms.HeapObjects, ms.StackInuse>>20, ms.Sys>>20, liveTicks, clip(xsimrt.DebugChans(), 60))
			}
		}()
	}

	stats := newStats(*prop, *tier, *lane, *seed, *worker)
	t0 := time.Now()
	wdFlush = func() {
		// the main goroutine is stuck in a call that does not return
		stats.Watchdog = true
		stats.WallS = time.Since(t0).Seconds()
		stats.finish()
		if *out != "" {
			writeJSON(*out, stats)
		}
	}
	for run := *from; run < *runs; run++ {
		if *deadline > 0 && time.Since(t0).Seconds() > *deadline {
			stats.Truncated = true
			break
		}
		scn := generate(*prop, *tier, *lane, *seed, *worker, run)
		if *cur != "" {
			writeJSON(*cur, &ReplayFile{Tree: treeSHA, Scenario: *scn,
				Violation: &Violation{Prop: *prop, Oracle: "data-race", Where: "race-detector", Detail: "the Go race detector reported a data race while this workload ran"}})
		}
		if d := os.Getenv("SLIMSIM_DUMP_SCN"); d != "" {
			writeJSON(fmt.Sprintf("%s/scn-%s-w%d-r%d.json", d, *prop, *worker, run), &ReplayFile{Tree: treeSHA, Scenario: *scn})
		}
		tRun := time.Now()
		res := execute(scn)
		if d := time.Since(tRun); d > 20*time.Second {
			// diagnostics only (never a decision): which scenarios are expensive
			fmt.Fprintf(os.Stderr, "slow run: %s lane=%s worker=%d run=%d took %.0fs steps=%d skipped=%q\n", *prop, *lane, *worker, run, d.Seconds(), res.Steps, res.Skipped)
		}
		if res.Premise != "" {
			fmt.Fprintf(os.Stderr, "premise failed: %s lane=%s worker=%d run=%d: %s\n", *prop, *lane, *worker, run, clip(res.Premise, 300))
		}
		stats.add(res)
		if *evlog {
			stats.EvHashes = append(stats.EvHashes, fmt.Sprintf("%d:%016x:%d", run, res.EvHash, res.Steps))
		}
		if res.Viol != nil {
			ref := handleViolation(scn, res)
			stats.Violations = append(stats.Violations, ref)
			if len(stats.Violations) >= *maxViol {
				break
			}
		}
		if gcOwned {
			var ms runtime.MemStats
			runtime.ReadMemStats(&ms)
			if ms.HeapAlloc > 192<<20 || run%16 == 15 {
				runtime.GC()
			}
		}
	}
	stats.WallS = time.Since(t0).Seconds()
	stats.finish()
	if *out != "" {
		if err := writeJSON(*out, stats); err != nil {
			fmt.Fprintln(os.Stderr, err)
			os.Exit(2)
		}
	}
	if len(stats.Premise) > 0 {
		fmt.Fprintln(os.Stderr, "PREMISE FAILED:", stats.Premise[0])
	}
}

// handleViolation writes the replay file at once (un-minimised), minimises
// within a budget and rewrites it.
func handleViolation(scn *Scenario, res *RunResult) ViolationRef {
	name := fmt.Sprintf("%s-%s-seed%d-w%d-r%d.json", scn.Prop, scn.Lane, scn.Seed, scn.Worker, scn.Run)
	path := filepath.Join(replayDir, name)
	rec := scn.clone()
	rf := &ReplayFile{Violation: res.Viol, Tree: treeSHA, Scenario: *rec}
	if err := writeJSON(path, rf); err != nil {
		fmt.Fprintln(os.Stderr, "cannot write replay file:", err)
		os.Exit(2)
	}
	if scn.Lane == "race" || scn.Lane == "racesim" {
		return ViolationRef{Replay: path, Viol: res.Viol}
	}
	// Prefer the explicit recorded schedule if it reproduces.
	if len(res.Segs) > 0 && scn.Strat.Kind != "replay" {
		c := scn.clone()
		c.Strat = Strategy{Kind: "replay"}
		c.Segs = res.Segs
		if r2 := execute(c); sameFailure(r2, res.Viol) {
			rec = c
		}
	}
	minBudget, minExecs := 45*time.Second, 300
	if os.Getenv("SLIMSIM_SELFTEST_FAST") != "" {
		// self tests only ask "is it reported": one violation per worker, short minimisation
		minBudget, minExecs = 3*time.Second, 30
	}
	min, v, info := minimise(rec, res.Viol, minBudget, minExecs)
	// Confirm in a FRESH OS process: the replay file must fail the same way
	// there. Candidates in order of preference: minimised; recorded schedule;
	// original seeded scenario; original scenario after the worker's history
	// (package-level state left behind by earlier runs).
	orig := scn.clone()
	cands := []*ReplayFile{
		{Violation: v, Tree: treeSHA, Minimised: true, MinInfo: info, Scenario: *min},
		{Violation: res.Viol, Tree: treeSHA, Scenario: *rec},
		{Violation: res.Viol, Tree: treeSHA, Scenario: *orig},
		{Violation: res.Viol, Tree: treeSHA, Scenario: *orig, History: true},
	}
	for _, c := range cands {
		if err := writeJSON(path, c); err != nil {
			fmt.Fprintln(os.Stderr, "cannot write replay file:", err)
			os.Exit(2)
		}
		if confirmFresh(path) {
			c.FreshConfirmed = true
			writeJSON(path, c)
			return ViolationRef{Replay: path, Viol: c.Violation}
		}
	}
	// nothing reproduced in a fresh process: keep the history form (the most
	// faithful one) and say so
	fmt.Fprintf(os.Stderr, "note: %s did not reproduce in a fresh process; kept with the worker history\n", path)
	return ViolationRef{Replay: path, Viol: res.Viol}
}

// confirmFresh re-executes a replay file in a fresh OS process.
func confirmFresh(path string) bool {
	ctx, cancel := context.WithTimeout(context.Background(), 300*time.Second)
	defer cancel()
	cmd := exec.CommandContext(ctx, os.Args[0], "replay", "-file", path, "-tree", treeSHA, "-fixtures", fixtureDir)
	err := cmd.Run()
	if ee, ok := err.(*exec.ExitError); ok {
		return ee.ExitCode() == 1
	}
	return false
}

func cmdReplay(args []string) {
	fs := flag.NewFlagSet("replay", flag.ExitOnError)
	file := fs.String("file", "", "replay file")
	tries := fs.Int("tries", 1, "attempts (race lane only)")
	fs.StringVar(&treeSHA, "tree", "", "fingerprint of the instrumented tree")
	fs.StringVar(&fixtureDir, "fixtures", fixtureDir, "directory of archived streams")
	sitesFile := fs.String("sites", "", "sites.txt")
	fs.Parse(args)
	loadSites(*sitesFile)
	b, err := os.ReadFile(*file)
	if err != nil {
		fmt.Fprintln(os.Stderr, err)
		os.Exit(2)
	}
	var rf ReplayFile
	if err := json.Unmarshal(b, &rf); err != nil {
		fmt.Fprintln(os.Stderr, "bad replay file:", err)
		os.Exit(2)
	}
	if rf.Tree != "" && treeSHA != "" && rf.Tree != treeSHA {
		fmt.Fprintf(os.Stderr, "note: replay file was recorded on tree %s, current tree is %s\n", clip(rf.Tree, 12), clip(treeSHA, 12))
	}
	scn := &rf.Scenario
	if scn.Lane == "sim" {
		runtime.GOMAXPROCS(1)
		debug.SetGCPercent(-1)
		debug.SetMemoryLimit(2 << 30)
	}
	if scn.Lane == "racesim" {
		runtime.GOMAXPROCS(1)
		spinTransport = true
	}
	ambSetLane(scn.Lane)
	startWatchdog(180 * time.Second)
	tStart := time.Now()
	for i := 0; i < *tries; i++ {
		if i > 0 && time.Since(tStart) > 150*time.Second {
			break
		}
		if rf.History || scn.Lane == "race" || (scn.Lane == "racesim" && i > 0) {
			// re-create the package-level state the worker process had
			for r := 0; r < scn.Run; r++ {
				execute(generate(scn.Prop, scn.Tier, scn.Lane, scn.Seed, scn.Worker, r))
				if scn.Lane == "sim" && r%16 == 15 {
					runtime.GC()
				}
			}
		}
		res := execute(scn)
		if res.Viol != nil && (rf.Violation == nil || (res.Viol.Oracle == rf.Violation.Oracle)) {
			fmt.Printf("REPRODUCED %s\n", res.Viol)
			if res.Viol.Expected != "" || res.Viol.Got != "" {
				fmt.Printf("  expected: %s\n  got:      %s\n", res.Viol.Expected, res.Viol.Got)
			}
			fmt.Printf("VIOLATION property=%s replay=%s\n", scn.Prop, *file)
			os.Exit(1)
		}
		if res.Viol != nil {
			fmt.Printf("different failure on replay: %s\n", res.Viol)
		}
	}
	fmt.Printf("NOT-REPRODUCED property=%s replay=%s\n", scn.Prop, *file)
	os.Exit(3)
}

// --- site table ---------------------------------------------------------------

var siteNames []string
var siteReaderIO int // 0 (= harness yield) when no site table is loaded

var siteSync []bool // site is a synchronising statement or the statement right after one

func loadSites(path string) {
	if path == "" {
		return
	}
	b, err := os.ReadFile(path)
	if err != nil {
		return
	}
	lines := strings.Split(string(b), "\n")
	// the last id is the simulated record file: a yield inside DataReader.Read
	// (I/O latency at the seam index.SlimIndex offers), an ordinary site for
	// the strategies
	siteNames = make([]string, len(lines)+3)
	siteSync = make([]bool, len(lines)+3)
	siteReaderIO = len(lines) + 2
	siteNames[siteReaderIO] = "DataReader.Read(simulated-record-file)"
	for _, l := range lines {
		var id int
		var loc, flag string
		if n, _ := fmt.Sscanf(l, "%d %s %s", &id, &loc, &flag); n >= 2 && id < len(siteNames) {
			siteNames[id] = loc
			siteSync[id] = flag == "S" || flag == "A"
		}
	}
}

func siteName(id int) string {
	if id == 0 {
		return "harness-yield"
	}
	if id < 0 {
		return "lock-spin"
	}
	if id < len(siteNames) && siteNames[id] != "" {
		return siteNames[id]
	}
	return fmt.Sprintf("site%d", id)
}

// cmdDeterminism: in-process determinism proof. Every run is executed twice
// from its seed and once more from its own recorded schedule; the full event
// log hash (every (task, site) yield event), the step count and the verdict
// must be identical. Any divergence exits 2.
func cmdDeterminism(args []string) {
	fs := flag.NewFlagSet("determinism", flag.ExitOnError)
	prop := fs.String("prop", "C11", "property")
	tier := fs.String("tier", "quick", "tier")
	seed := fs.Uint64("seed", 1, "seed")
	runs := fs.Int("runs", 50, "runs")
	spin := fs.Bool("spin", false, "use the spin baton of the controlled race lane (run with the harness-race binary)")
	fs.StringVar(&fixtureDir, "fixtures", fixtureDir, "fixtures")
	fs.Parse(args)
	if os.Getenv("SLIMSIM_KEEP_GOMAXPROCS") == "" || *spin {
		runtime.GOMAXPROCS(1)
	}
	lane := "sim"
	if *spin {
		spinTransport = true
		lane = "racesim"
	} else {
		debug.SetGCPercent(-1)
		debug.SetMemoryLimit(2 << 30)
	}
	ambSetLane(lane)
	startWatchdog(180 * time.Second)
	bad, replayed := 0, 0
	for run := 0; run < *runs; run++ {
		scn := generate(*prop, *tier, lane, *seed, 0, run)
		a := execute(scn)
		b := execute(generate(*prop, *tier, lane, *seed, 0, run))
		if a.EvHash != b.EvHash || a.Steps != b.Steps || (a.Viol == nil) != (b.Viol == nil) {
			fmt.Printf("DIVERGENCE seed=%d run=%d: same seed twice: %016x/%d vs %016x/%d\n", *seed, run, a.EvHash, a.Steps, b.EvHash, b.Steps)
			bad++
		}
		if len(a.Segs) > 0 {
			c := scn.clone()
			c.Strat = Strategy{Kind: "replay"}
			c.Segs = a.Segs
			r := execute(c)
			replayed++
			if r.EvHash != a.EvHash || r.Steps != a.Steps || (a.Viol == nil) != (r.Viol == nil) {
				fmt.Printf("DIVERGENCE seed=%d run=%d: record vs replay: %016x/%d vs %016x/%d (strategy %s)\n", *seed, run, a.EvHash, a.Steps, r.EvHash, r.Steps, scn.Strat)
				if os.Getenv("SLIMSIM_DEBUG_SEGS") != "" {
					fmt.Printf("  recorded segs: %v\n  replayed segs: %v\n", a.Segs, r.Segs)
				}
				bad++
			}
		}
		if run%8 == 7 {
			runtime.GC()
		}
	}
	fmt.Printf("determinism %s seed=%d: %d runs executed twice, %d replayed from their recorded schedule, %d divergences\n", *prop, *seed, *runs, replayed, bad)
	if bad > 0 {
		os.Exit(2)
	}
}

// cmdMinimiseRace shrinks the replay file of a controlled-race-lane report.
// The race detector halts the process at the first report, so every candidate
// is judged in a child process: exit code 66 (GORACE exitcode) = still races.
func cmdMinimiseRace(args []string) {
	fs := flag.NewFlagSet("minimise-race", flag.ExitOnError)
	file := fs.String("file", "", "replay file (rewritten in place)")
	budget := fs.Float64("budget", 60, "seconds")
	fs.StringVar(&treeSHA, "tree", "", "tree fingerprint")
	fs.StringVar(&fixtureDir, "fixtures", fixtureDir, "fixtures")
	fs.Parse(args)
	b, err := os.ReadFile(*file)
	if err != nil {
		os.Exit(2)
	}
	var rf ReplayFile
	if json.Unmarshal(b, &rf) != nil || rf.Scenario.Lane != "racesim" {
		return
	}
	tmp := *file + ".cand"
	defer os.Remove(tmp)
	races := func(c *ReplayFile) bool {
		if writeJSON(tmp, c) != nil {
			return false
		}
		ctx, cancel := context.WithTimeout(context.Background(), 60*time.Second)
		defer cancel()
		cmd := exec.CommandContext(ctx, os.Args[0], "replay", "-file", tmp, "-tries", "1", "-tree", treeSHA, "-fixtures", fixtureDir)
		cmd.Env = append(os.Environ(), "GORACE=halt_on_error=1 exitcode=66")
		err := cmd.Run()
		if ee, ok := err.(*exec.ExitError); ok {
			return ee.ExitCode() == 66
		}
		return false
	}
	start := time.Now()
	if !races(&rf) {
		fmt.Fprintln(os.Stderr, "minimise-race: the report does not reproduce from the scenario alone; file left as recorded")
		return
	}
	rf.FreshConfirmed = true
	best := rf
	execs, accepted := 1, 0
	for progress := true; progress && time.Since(start).Seconds() < *budget; {
		progress = false
		for _, red := range reducersFor(&best.Scenario) {
			for _, mut := range red(&best.Scenario) {
				if time.Since(start).Seconds() > *budget {
					break
				}
				c := best
				c.Scenario = *best.Scenario.clone()
				if !mut(&c.Scenario) {
					continue
				}
				execs++
				if races(&c) {
					best = c
					accepted++
					progress = true
					break
				}
			}
		}
	}
	best.Minimised = accepted > 0
	best.MinInfo = fmt.Sprintf("%d child executions under the race detector, %d reductions accepted, %.1fs", execs, accepted, time.Since(start).Seconds())
	writeJSON(*file, &best)
}
