package main

import (
	"fmt"

	"github.com/openacid/errors"
	"github.com/openacid/slim/trie"
)

// C07, concurrent restart: several readers come up at once after the crash.
// Some load the surviving prefix / the foreign file, others load the complete
// stream, each into an instance of its own, as tasks of the seeded scheduler.
// The statement quantifies over every load ("Unmarshal never loads data it
// cannot interpret"), not only over loads that happen alone in a process:
// a verdict shared between loads (a memo of the version decision, pooled decode
// state, a worker behind a channel) must not let one load's answer leak into
// another's. The oracle is the sequential one, per faulty load, evaluated while
// the others are in flight and once more, alone, after all of them are done.

type C07Conc struct {
	Faults []C07Fault `json:"faults"`        // loaded by one task each
	Valid  int        `json:"valid_loaders"` // tasks loading the complete stream
}

func genC07Conc(r *Rng, c *C07Scn) *C07Conc {
	cc := &C07Conc{Valid: r.Range(1, 2)}
	var cuts, vers []int
	for i, f := range c.Faults {
		if f.Kind == "cut" {
			cuts = append(cuts, i)
		} else {
			vers = append(vers, i)
		}
	}
	n := r.Range(1, 3)
	for k := 0; k < n; k++ {
		pool := cuts
		if len(vers) > 0 && (k == 0 || r.Chance(0.5) || len(cuts) == 0) {
			pool = vers
		}
		if len(pool) == 0 {
			continue
		}
		cc.Faults = append(cc.Faults, c.Faults[pool[r.Intn(len(pool))]])
	}
	if len(cc.Faults) == 0 {
		return nil
	}
	return cc
}

type c07Load struct {
	fault   *C07Fault // nil: the complete stream
	buf     []byte
	st      *trie.SlimTrie
	err     error
	pan     string
	bad     string
	capped  bool
	aborted bool // unwound by the simulator for a reason that is not a verdict
}

func (c *C07Scn) faultBytes(stream []byte, ft *C07Fault) []byte {
	switch ft.Kind {
	case "cut":
		cut := ft.Cut
		if cut >= len(stream) {
			cut = len(stream) - 1
		}
		if cut < 0 {
			return nil
		}
		return append([]byte{}, stream[:cut]...)
	case "version":
		if len(stream) < 16 || len(ft.Version) != 16 {
			return nil
		}
		b := append([]byte{}, stream...)
		copy(b[:16], ft.Version)
		return b
	}
	return nil
}

// judge applies the sequential oracle to one finished faulty load.
func (l *c07Load) judge(where, desc string, cap, refSteps int64) *Violation {
	ft := l.fault
	if ft.Kind == "cut" {
		desc += fmt.Sprintf("write interrupted after %d bytes", ft.Cut)
	} else {
		desc += fmt.Sprintf("version field %q", ft.Version)
	}
	switch {
	case l.pan == panStepCap:
		return &Violation{Prop: "C07", Oracle: "load-does-not-return", Where: where, Detail: desc + fmt.Sprintf(": Unmarshal did not return within %d steps (loading the whole stream takes %d)", cap, refSteps)}
	case l.pan != "":
		return &Violation{Prop: "C07", Oracle: "panic-on-load", Where: where, Detail: desc + ": Unmarshal panicked: " + l.pan}
	case l.err == nil:
		return &Violation{Prop: "C07", Oracle: "accepted", Where: where, Detail: desc + ": Unmarshal returned nil error"}
	case ft.Kind == "version" && errors.Cause(l.err) != trie.ErrIncompatible:
		return &Violation{Prop: "C07", Oracle: "wrong-error", Where: where, Detail: desc + ": error is not ErrIncompatible: " + clip(l.err.Error(), 160)}
	case l.bad != "":
		return &Violation{Prop: "C07", Oracle: "not-empty-after-reject", Where: where, Detail: desc + ": after the rejected load " + l.bad}
	}
	return nil
}

func (c *C07Scn) concurrentPhase(scn *Scenario, res *RunResult, stream []byte, enc, layout, id string, refSteps int64) *Violation {
	cc := c.Conc
	mk := func() []*c07Load {
		var ls []*c07Load
		for i := range cc.Faults {
			ft := &cc.Faults[i]
			b := c.faultBytes(stream, ft)
			if b == nil {
				continue
			}
			ls = append(ls, &c07Load{fault: ft, buf: b})
		}
		for k := 0; k < cc.Valid; k++ {
			ls = append(ls, &c07Load{buf: append([]byte{}, stream...)})
		}
		for _, l := range ls {
			prior := c.Prior
			if l.fault == nil && prior == "zero" {
				prior = "fresh" // (the complete stream needs an encoder)
			}
			l.st, _ = c.homedPrior(prior, enc)
		}
		return ls
	}
	entryOf := func(i int) string {
		if c.Entry == "alternate" {
			return []string{"direct", "proto", "index"}[i%3]
		}
		return c.Entry
	}
	lcap := loadCap(refSteps)

	// solo preamble: every load of the phase once, alone, one after the other.
	// It gives the site profiles and step counts (the sequential loop has
	// already judged these faults alone) and it is repeated before EVERY pass,
	// so that a pass starts from the same process state (whatever the code under
	// test keeps at package level) in the worker and in a replay of that pass.
	generated := scn.Strat.Kind != "replay" && !scn.Strat.Resolved
	var profiles []map[int]int32
	var tasks []TaskSpec
	var total int64
	solo := func(record bool) int {
		loads := mk()
		total = 0
		for i, l := range loads {
			i, l := i, l
			prev := getHook()
			if record {
				prof := map[int]int32{}
				profiles = append(profiles, prof)
				tasks = append(tasks, TaskSpec{Units: []Unit{{Kind: "load"}}})
				setHook(func(site int) { prof[site]++ })
			}
			n, _ := withStepCap(lcap, func() {
				l.err, l.pan = loadVia(l.st, entryOf(i), l.buf)
				if l.fault != nil && l.pan == "" {
					l.bad = emptyAnswers(l.st, c.Queries)
				}
			})
			setHook(prev)
			total += n
		}
		return len(loads)
	}
	if solo(generated) < 2 {
		return nil
	}
	strat := scn.Strat
	var cands []Strategy
	if generated {
		adaptToSync(&strat, profiles)
		resolveSweep(&strat, tasks, profiles)
		if profilesHaveSync(profiles) {
			cands = sweepCandidates(strat.Seed, tasks, profiles, 24, false)
		}
	}

	pass := func(st Strategy) (*Violation, []Seg) {
		ls := mk()
		sim := newSim(st, scn.Segs, total)
		if m := 6 * total; m > sim.maxSteps {
			sim.maxSteps = m
		}
		for i, l := range ls {
			i, l := i, l
			sim.addTask(fmt.Sprintf("loader%d", i), func(t *Task) {
				defer func() {
					if r := recover(); r != nil {
						if _, ok := r.(abortUnit); !ok {
							panic(r)
						}
						l.aborted = true
					}
				}()
				sim.enterUnit(t, "unmarshal", lcap)
				l.err, l.pan = loadVia(l.st, entryOf(i), l.buf)
				sim.exitUnit(t)
				if l.fault != nil && l.pan == "" {
					sim.enterUnit(t, "queries-after-reject", lcap)
					l.bad = emptyAnswers(l.st, c.Queries)
					sim.exitUnit(t)
				}
			})
		}
		sim.run()
		res.Steps += sim.steps
		res.Counters["concurrent_restart_runs"]++
		res.Counters["fault.preemption_inside_load"] += int64(sim.preemptIn)
		res.Counters["strategy."+st.Kind]++
		segs := trimSegs(sim.segs)
		res.EvHash = (res.EvHash ^ sim.evHash) * fnvPrime
		if sim.stop && !sim.deadlock {
			res.Counters["budget_stopped_runs"]++
			return nil, nil
		}
		if sim.deadlock {
			return &Violation{Prop: "C07", Oracle: "load-does-not-return", Where: "concurrent-loaders,layout=" + layout,
				Detail: fmt.Sprintf("stream %s (%d bytes), prior state %s: %d loaders of separate instances (%d of them given a damaged stream) block one another for ever; each load returns when run alone", id, len(stream), c.Prior, len(ls), len(ls)-cc.Valid)}, segs
		}
		for i, l := range ls {
			if l.fault == nil {
				continue
			}
			if l.pan != "" && l.pan != panStepCap && len(l.pan) >= 6 && l.pan[:6] == "ABORT:" {
				continue // unwound with the run: says nothing
			}
			res.Evals++
			res.Counters["fault.damaged_stream_loaded_while_other_loads_in_flight"]++
			where := fmt.Sprintf("fault=%s,layout=%s,entry=%s,concurrent-loaders", l.fault.Kind, layout, entryOf(i))
			desc := fmt.Sprintf("stream %s (%d bytes), prior state %s, %d other loads in flight on other instances, ", id, len(stream), c.Prior, len(ls)-1)
			if v := l.judge(where, desc, lcap, refSteps); v != nil {
				return v, segs
			}
		}
		// once more, alone, after everybody is done: what the concurrent loads
		// left behind in the process must not change a later verdict
		for i := range cc.Faults {
			ft := &cc.Faults[i]
			b := c.faultBytes(stream, ft)
			if b == nil {
				continue
			}
			l := &c07Load{fault: ft, buf: b}
			l.st, _ = c.homedPrior(c.Prior, enc)
			_, capped := withStepCap(lcap, func() {
				l.err, l.pan = loadVia(l.st, entryOf(i), l.buf)
				if l.pan == "" {
					l.bad = emptyAnswers(l.st, c.Queries)
				}
			})
			if capped && l.pan == "" && l.bad == "" {
				l.bad = "a lookup or scan did not return within the step budget (an empty trie answers in a handful of steps)"
			}
			res.Evals++
			res.Counters["fault.damaged_stream_loaded_after_concurrent_loads"]++
			where := fmt.Sprintf("fault=%s,layout=%s,entry=%s,after-concurrent-loaders", ft.Kind, layout, entryOf(i))
			desc := fmt.Sprintf("stream %s (%d bytes), prior state %s, loaded alone after %d concurrent loads on other instances had finished, ", id, len(stream), c.Prior, len(ls))
			if v := l.judge(where, desc, lcap, refSteps); v != nil {
				return v, segs
			}
		}
		return nil, segs
	}

	first := true
	basePass := pass
	pass = func(st Strategy) (*Violation, []Seg) {
		if !first {
			solo(false)
		}
		first = false
		return basePass(st)
	}
	v, segs := pass(strat)
	res.Segs = segs
	if v != nil {
		scn.Strat = strat
		return v
	}
	for _, cand := range cands {
		res.Counters["systematic_sweep_passes"]++
		if v, segs := pass(cand); v != nil {
			scn.Strat = cand
			res.Segs = segs
			return v
		}
	}
	return nil
}
