package main

import (
	"fmt"
	"runtime"
	"time"

	xsimrt "github.com/openacid/slim/xsimrt"
)

// Goroutines started by the code under test ("dynamic tasks").
//
// The tree under test has no go statement today; a change may add one (a
// background conversion, a parallel build, a prefetching iterator). The
// instrumenter routes every go statement through xsimrt.Go, and this file makes
// the new goroutine one more task of the seeded scheduler:
//
//   - inside Sim.run (the concurrent phases of C11 and C20) it joins the tasks
//     of the run: it is picked, preempted and recorded like a reader task;
//   - everywhere else (the "ambient" mode: builds, loads, reference executions,
//     batteries on the harness' own goroutine) a small seeded scheduler of the
//     same transport interleaves it with the harness' goroutine at yields;
//   - children that are still alive when a Sim starts are adopted by it, and
//     the ones alive at its end go back to the ambient scheduler.
//
// All decisions come from PRNGs seeded by the scenario, so a run with library
// goroutines replays like any other. Nothing in here executes on a tree without
// go statements (amb.kids stays empty and xsimrt.GoHook is never called).

// transport state shared by the ambient scheduler and every Sim
var (
	backCh   = make(chan struct{})
	turnVar  = -1 // spin transport: slot of the task holding the baton, -1 = scheduler
	nextSlot = 0
	curSim   *Sim
)

func newSlot() int { nextSlot++; return nextSlot - 1 }

// transportPark gives the baton back to whoever resumed t and waits for the
// next resume (task side).
func transportPark(t *Task) {
	if spinTransport {
		turnVar = -1
		for turnVar != t.slot {
			runtime.Gosched()
		}
		return
	}
	backCh <- struct{}{}
	<-t.resume
}

// transportResume hands the baton to t and waits until it parks or ends
// (scheduler side).
func transportResume(t *Task) {
	if spinTransport {
		turnVar = t.slot
		for turnVar != -1 {
			runtime.Gosched()
		}
		return
	}
	t.resume <- struct{}{}
	<-backCh
}

func transportAwaitFirst(t *Task) {
	if spinTransport {
		for turnVar != t.slot {
			runtime.Gosched()
		}
		return
	}
	<-t.resume
}

type ambient struct {
	on      bool
	kids    []*Task
	rng     *Rng
	cur     *Task // child holding the baton, nil = the harness goroutine
	base    func(site int)
	killing bool
	spin    int
	rrNext  int
	fspin   int
	pYield  float64

	spawned  int64
	switches int64
	panics   int64
	lastPan  string
	foreign  int64
}

var amb ambient

// ambSetLane decides how goroutines of the code under test are run in this
// process: free-running (lane "race") or owned by the simulator.
func ambSetLane(lane string) {
	pend := xsimrt.Pending
	xsimrt.Pending = nil
	xsimrt.PreMain = false
	if lane == "race" {
		for _, b := range pend {
			go b()
		}
		return
	}
	amb.on = true
	amb.rng = NewRng(1)
	amb.pYield = 1.0 / 32
	xsimrt.GoHook = ambGo
	xsimrt.ForceSwitch = ambForceSwitch
	xsimrt.Choice = func(n int) int {
		if s := curSim; s != nil {
			return s.rng.Intn(n)
		}
		return amb.rng.Intn(n)
	}
	for _, b := range pend {
		// started by a package initialiser: lives as long as the process
		ambDaemon = true
		ambGo(b)
		ambDaemon = false
	}
}

var ambDaemon bool

// ambReset is called at the start of every run: children left over from the
// previous run are unwound, the PRNG restarts from the scenario's seed.
func ambReset(seed uint64) {
	xsimrt.ResetOnceTable()
	xsimrt.ResetWGTable()
	xsimrt.ResetChanTable()
	if !amb.on {
		return
	}
	var daemons, mortal []*Task
	for _, k := range amb.kids {
		if k.daemon {
			daemons = append(daemons, k)
		} else {
			mortal = append(mortal, k)
		}
	}
	if len(mortal) > 0 {
		amb.killing = true
		amb.kids = mortal
		for tries := 0; len(amb.kids) > 0 && tries < 4000; tries++ {
			ambRun(amb.kids[0])
		}
		amb.killing = false
		// whatever could not be unwound stays parked for ever
	}
	amb.kids = daemons
	amb.rng = NewRng(seed ^ 0xa3b1e47)
	// 0 = children are held back until the harness goroutine blocks on them or
	// a Sim adopts them (a background goroutine that outlives the call which
	// started it is the interesting case)
	amb.pYield = []float64{0, 0, 1.0 / 4, 1.0 / 32, 1.0 / 256}[amb.rng.Intn(5)]
	amb.spawned, amb.switches = 0, 0
	amb.spin, amb.rrNext = 0, 0
	amb.panics, amb.lastPan = 0, ""
	ambRefreshHook()
}

// setHook / getHook replace direct assignments to xsimrt.Hook: the ambient
// scheduler needs every yield while children exist.
func setHook(f func(site int)) {
	amb.base = f
	ambRefreshHook()
}

func getHook() func(site int) { return amb.base }

func ambRefreshHook() {
	if len(amb.kids) == 0 && amb.cur == nil {
		xsimrt.Hook = amb.base
		return
	}
	xsimrt.Hook = ambHook
}

func ambHook(site int) {
	amb.spin = 0
	if f := amb.base; f != nil {
		f(site)
	}
	if amb.cur != nil {
		if amb.killing {
			panic(abortUnit{"killed"})
		}
		if amb.rng.Chance(amb.pYield) {
			transportPark(amb.cur)
		}
		return
	}
	if len(amb.kids) > 0 && amb.rng.Chance(amb.pYield) {
		ambRun(amb.kids[amb.rng.Intn(len(amb.kids))])
	}
}

func startDyn(t *Task, body func()) {
	go func() {
		transportAwaitFirst(t)
		func() {
			defer func() {
				if r := recover(); r != nil {
					if _, ok := r.(abortUnit); ok {
						return
					}
					amb.panics++
					amb.lastPan = clip(fmt.Sprint(r), 200)
				}
			}()
			body()
		}()
		t.done = true
		t.inUnit = false
		if s := curSim; s != nil && len(s.segs) > 0 {
			s.segs[len(s.segs)-1].N++
		}
		if spinTransport {
			turnVar = -1
			return
		}
		backCh <- struct{}{}
	}()
}

func ambGo(body func()) {
	t := &Task{id: -1, name: "dyn", dyn: true, daemon: ambDaemon, slot: newSlot(), resume: make(chan struct{})}
	amb.kids = append(amb.kids, t)
	amb.spawned++
	startDyn(t, body)
	if xsimrt.Hook == nil || amb.cur == nil {
		xsimrt.Hook = ambHook
	}
	if amb.cur == nil && amb.rng.Chance(0.5) {
		ambRun(t) // child first
	}
}

// ambRun lets child t run until it parks or ends (harness goroutine only).
func ambRun(t *Task) {
	amb.cur = t
	amb.switches++
	transportResume(t)
	amb.cur = nil
	if t.done {
		for i, k := range amb.kids {
			if k == t {
				amb.kids = append(amb.kids[:i:i], amb.kids[i+1:]...)
				break
			}
		}
		ambRefreshHook()
	}
}

func ambForceSwitch() {
	if amb.cur != nil {
		if amb.killing {
			panic(abortUnit{"killed"})
		}
		transportPark(amb.cur)
		return
	}
	// the harness goroutine cannot continue: some child has to
	if xsimrt.ForeignWaits != amb.foreign {
		// it polls a channel the simulator does not own (a timer): real time
		// has to pass
		amb.foreign = xsimrt.ForeignWaits
		amb.fspin++
		if amb.fspin > 200000 {
			amb.fspin = 0
			panic(abortUnit{"budget"})
		}
		time.Sleep(20 * time.Microsecond)
		if len(amb.kids) == 0 {
			return
		}
		amb.spin = 0
	}
	amb.spin++
	if len(amb.kids) == 0 || amb.spin > 2000*(len(amb.kids)+1) {
		amb.spin = 0
		if xsimrt.ForeignWaits != amb.foreign {
			amb.foreign = xsimrt.ForeignWaits
			panic(abortUnit{"budget"})
		}
		panic(abortUnit{"deadlock"})
	}
	amb.rrNext++
	ambRun(amb.kids[amb.rrNext%len(amb.kids)])
}
