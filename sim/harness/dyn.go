package main

import (
	"fmt"
	"os"
	"runtime"
	"time"

	xsimrt "github.com/openacid/slim/xsimrt"
)

// Goroutines started by the code under test ("dynamic tasks").
//
// The tree under test has no go statement today; a change may add one (a
// background conversion, a parallel build, a prefetching iterator). The
// instrumenter routes every go statement through xsimrt.Go, and this file makes
// the new goroutine one more task of the seeded scheduler:
//
//   - inside Sim.run (the concurrent phases of C11 and C20) it joins the tasks
//     of the run: it is picked, preempted and recorded like a reader task;
//   - everywhere else (the "ambient" mode: builds, loads, reference executions,
//     batteries on the harness' own goroutine) a small seeded scheduler of the
//     same transport interleaves it with the harness' goroutine at yields;
//   - children that are still alive when a Sim starts are adopted by it, and
//     the ones alive at its end go back to the ambient scheduler.
//
// All decisions come from PRNGs seeded by the scenario, so a run with library
// goroutines replays like any other. Nothing in here executes on a tree without
// go statements (amb.kids stays empty and xsimrt.GoHook is never called).

// transport state shared by the ambient scheduler and every Sim
var (
	backCh   = make(chan struct{})
	turnVar  = -1 // spin transport: slot of the task holding the baton, -1 = scheduler
	nextSlot = 0
	curSim   *Sim
)

func newSlot() int { nextSlot++; return nextSlot - 1 }

// Every task remembers by which protocol it is parked (t.spin): the controlled
// race lane passes the baton through a plain variable inside Sim.run (no
// happens-before edge between tasks, DESIGN 12.10), everything else - and the
// ambient scheduler in every lane - uses channels, so that the harness' own
// bookkeeping in its hooks (Go maps) is ordered between the harness goroutine
// and a child. A child adopted by a Sim, or handed back by one, changes protocol
// at its next park.

func wantSpin() bool { return spinTransport && curSim != nil }

// transportPark gives the baton back to whoever resumed t and waits for the
// next resume (task side).
func transportPark(t *Task) {
	was := t.spin
	t.spin = wantSpin()
	if was {
		turnVar = -1
	} else {
		backCh <- struct{}{}
	}
	if t.spin {
		for turnVar != t.slot {
			runtime.Gosched()
		}
		return
	}
	<-t.resume
}

// transportResume hands the baton to t and waits until it parks or ends
// (scheduler side).
func transportResume(t *Task) {
	if t.spin {
		turnVar = t.slot
		for turnVar != -1 {
			runtime.Gosched()
		}
		return
	}
	t.resume <- struct{}{}
	<-backCh
}

func transportAwaitFirst(t *Task) {
	if t.spin {
		for turnVar != t.slot {
			runtime.Gosched()
		}
		return
	}
	<-t.resume
}

// transportEnd: the task is over, the baton goes back for good.
func transportEnd(t *Task) {
	if t.spin {
		turnVar = -1
		return
	}
	backCh <- struct{}{}
}

type ambient struct {
	on        bool
	kids      []*Task
	rng       *Rng
	cur       *Task // child holding the baton, nil = the harness goroutine
	base      func(site int)
	abortMain *abortUnit // a capped call ran out of budget while a child was running
	quiescing bool
	qsteps    int
	spin      int
	rrNext    int
	fspin     int
	pYield    float64
	pDrain    float64 // per run: probability that children run to rest when a call of the harness goroutine has returned

	spawned  int64
	switches int64
	steps    int64  // yields seen by the ambient hook
	hash     uint64 // running hash over the ambient scheduler's decisions (folded into the run's event hash)
	panics   int64
	lastPan  string
	foreign  int64
}

var amb ambient

// ambSetLane decides how goroutines of the code under test are run in this
// process: free-running (lane "race") or owned by the simulator.
func ambSetLane(lane string) {
	pend := xsimrt.Pending
	xsimrt.Pending = nil
	xsimrt.PreMain = false
	if lane == "race" {
		for _, b := range pend {
			go b()
		}
		return
	}
	amb.on = true
	amb.rng = NewRng(1)
	amb.pYield = 1.0 / 32
	xsimrt.GoHook = ambGo
	xsimrt.ForceSwitch = ambForceSwitch
	xsimrt.LockHook = lockHook
	xsimrt.Choice = func(n int) int {
		if s := curSim; s != nil {
			return s.rng.Intn(n)
		}
		return amb.rng.Intn(n)
	}
	for _, b := range pend {
		// started by a package initialiser: lives as long as the process
		ambDaemon = true
		ambGo(b)
		ambDaemon = false
	}
}

var ambDaemon bool

// ambReset is called at the start of every run. Children left over from the
// previous run come to rest first (ambRetire); what is still alive afterwards
// waits for somebody and stays - a worker that the code under test started
// lazily and keeps in a package-level variable lives as long as the process,
// exactly like one started by init(). Then the side tables forget what nobody
// waits on, and the PRNG restarts from the scenario's seed.
func ambReset(seed uint64) {
	indexReg = indexReg[:0]
	releaseHeld(&mainHeld)
	if amb.on {
		ambRetire()
	}
	if os.Getenv("SLIMSIM_AMBDBG") != "" && len(amb.kids) > 0 {
		fmt.Fprintf(os.Stderr, "AMBDBG reset: kids=%d before: %s\n", len(amb.kids), xsimrt.DebugChans())
	}
	xsimrt.ResetOnceTable()
	xsimrt.ResetWGTable()
	xsimrt.ResetChanTable()
	xsimrt.ResetCondTable()
	if !amb.on {
		return
	}
	amb.rng = NewRng(seed ^ 0xa3b1e47)
	// 0 = children are held back until the harness goroutine blocks on them or
	// a Sim adopts them (a background goroutine that outlives the call which
	// started it is the interesting case)
	amb.pYield = []float64{0, 0, 1.0 / 4, 1.0 / 32, 1.0 / 256}[amb.rng.Intn(5)]
	amb.pDrain = []float64{0, 0, 1.0 / 4, 1.0 / 32}[amb.rng.Intn(4)]
	amb.spawned, amb.switches, amb.steps, amb.hash = 0, 0, 0, 0
	amb.spin, amb.rrNext = 0, 0
	amb.panics, amb.lastPan = 0, ""
	amb.abortMain = nil
	ambRefreshHook()
}

// setHook / getHook replace direct assignments to xsimrt.Hook: the ambient
// scheduler needs every yield while children exist.
func setHook(f func(site int)) {
	amb.base = f
	amb.abortMain = nil
	ambRefreshHook()
}

func getHook() func(site int) { return amb.base }

func ambRefreshHook() {
	if len(amb.kids) == 0 && amb.cur == nil {
		xsimrt.Hook = amb.base
		return
	}
	xsimrt.Hook = ambHook
}

func ambHook(site int) {
	amb.spin = 0
	amb.steps++
	if f := amb.base; f != nil {
		if amb.cur != nil {
			// The hook of a capped call unwinds its caller when the budget is
			// gone. The caller is the harness goroutine, never a goroutine of
			// the code under test (which may live as long as the process): the
			// unwinding is delivered to the harness goroutine at its next yield
			// (the hook is sticky) or, if it is blocked, at its next attempt.
			func() {
				defer func() {
					if r := recover(); r != nil {
						a, ok := r.(abortUnit)
						if !ok {
							panic(r)
						}
						amb.abortMain = &a
					}
				}()
				f(site)
			}()
		} else {
			f(site)
		}
	}
	if amb.cur != nil {
		amb.cur.blocked = false
		if amb.cur.victim && len(amb.cur.held) == 0 {
			panic(abortUnit{"killed"})
		}
		if amb.quiescing {
			if amb.qsteps++; amb.qsteps > 2_000_000 {
				amb.qsteps = 0
				amb.cur.blocked, amb.cur.runaway = true, true // it does not come to rest
				transportPark(amb.cur)
			}
			return
		}
		if amb.abortMain != nil || amb.rng.Chance(amb.pYield) {
			transportPark(amb.cur)
		}
		return
	}
	if len(amb.kids) > 0 && amb.rng.Chance(amb.pYield) {
		ambRun(amb.kids[amb.rng.Intn(len(amb.kids))])
	}
}

func startDyn(t *Task, body func()) {
	go func() {
		transportAwaitFirst(t)
		func() {
			defer func() {
				if r := recover(); r != nil {
					if _, ok := r.(abortUnit); ok {
						return
					}
					amb.panics++
					amb.lastPan = clip(fmt.Sprint(r), 200)
				}
			}()
			body()
		}()
		t.done = true
		t.inUnit = false
		releaseHeld(&t.held)
		if s := curSim; s != nil && len(s.segs) > 0 {
			s.segs[len(s.segs)-1].N++
		}
		transportEnd(t)
	}()
}

func ambGo(body func()) {
	t := &Task{id: -1, name: "dyn", dyn: true, daemon: ambDaemon, initBorn: ambDaemon, slot: newSlot(), resume: make(chan struct{})}
	amb.kids = append(amb.kids, t)
	amb.spawned++
	noteSpawn()
	startDyn(t, body)
	if xsimrt.Hook == nil || amb.cur == nil {
		xsimrt.Hook = ambHook
	}
	if amb.cur == nil && amb.rng.Chance(0.5) {
		ambRun(t) // child first
	}
}

// ambRun lets child t run until it parks or ends (harness goroutine only).
func ambRun(t *Task) {
	amb.cur = t
	amb.switches++
	ord := 0
	for i, k := range amb.kids {
		if k == t {
			ord = i + 1
		}
	}
	amb.hash = (amb.hash ^ uint64(amb.steps)<<8 ^ uint64(ord)) * fnvPrime
	transportResume(t)
	amb.cur = nil
	if t.done {
		for i, k := range amb.kids {
			if k == t {
				amb.kids = append(amb.kids[:i:i], amb.kids[i+1:]...)
				break
			}
		}
		ambRefreshHook()
	}
}

func ambForceSwitch() {
	if amb.cur != nil {
		if amb.cur.victim {
			panic(abortUnit{"killed"})
		}
		amb.cur.blocked = true
		transportPark(amb.cur)
		return
	}
	// the harness goroutine cannot continue: some child has to
	if a := amb.abortMain; a != nil {
		amb.abortMain = nil
		panic(*a) // the budget of the call went while a child was running
	}
	if xsimrt.ForeignWaits != amb.foreign {
		// it polls a channel the simulator does not own (a timer): real time
		// has to pass
		amb.foreign = xsimrt.ForeignWaits
		amb.fspin++
		if amb.fspin == 1 && os.Getenv("SLIMSIM_AMBDBG") != "" {
			fmt.Fprintf(os.Stderr, "AMBDBG harness goroutine polls a channel the simulator does not own; kids=%d %s\n", len(amb.kids), xsimrt.DebugChans())
		}
		if amb.fspin > 200000 {
			amb.fspin = 0
			panic(abortUnit{"budget"})
		}
		time.Sleep(20 * time.Microsecond)
		if len(amb.kids) == 0 {
			return
		}
		amb.spin = 0
	}
	amb.spin++
	if len(amb.kids) == 0 || amb.spin > 2000*(len(amb.kids)+1) {
		amb.spin = 0
		panic(abortUnit{"deadlock"})
	}
	amb.rrNext++
	ambRun(amb.kids[amb.rrNext%len(amb.kids)])
}

// ambIsolated runs f - library calls that fill one of the harness' own caches
// (the stream of a prior content, the stream a subject is loaded from) - so
// that it makes no difference to the run whether the cache was already warm:
// the run's children do not run, f's own children are scheduled from a PRNG of
// their own and unwound afterwards (only bytes are kept from f), the run's
// hook does not see f's yields.
func ambIsolated(f func()) {
	if !amb.on || amb.cur != nil || curSim != nil {
		f()
		return
	}
	rng, p, pd, steps, hash, spawned, switches := *amb.rng, amb.pYield, amb.pDrain, amb.steps, amb.hash, amb.spawned, amb.switches
	base := amb.base
	var daemons, held []*Task
	for _, k := range amb.kids {
		if k.daemon {
			daemons = append(daemons, k)
		} else {
			held = append(held, k)
		}
	}
	amb.kids, amb.base = daemons, nil
	ambQuiesce()
	amb.rng, amb.pYield, amb.pDrain = NewRng(0x150c0de), 1.0/32, 0
	ambRefreshHook()
	defer func() {
		ambRetire() // f's own children: to rest, and the ones that wait stay
		*amb.rng, amb.pYield, amb.pDrain, amb.steps, amb.hash, amb.spawned, amb.switches = rng, p, pd, steps, hash, spawned, switches
		amb.kids, amb.base = append(amb.kids, held...), base
		ambRefreshHook()
	}()
	f()
}

// ambRetire ends a run (or a cache fill) as far as the children are concerned.
// Every child runs until it ends or blocks. What is still alive then waits for
// somebody: it stays, as a daemon (goroutines that the code under test keeps in
// package-level state - a lazily started worker - live as long as the process;
// unwinding one would make every later call wait for ever). Unwound are only
// the ones that do not come to rest, and the oldest beyond maxSurvivors (left
// behind by abandoned calls; a bound, so that thousands of runs do not pile up
// goroutines).
const maxSurvivors = 8

func ambRetire() {
	if len(amb.kids) == 0 {
		return
	}
	amb.quiescing = true
	base := amb.base
	amb.base = nil
	for _, k := range append([]*Task{}, amb.kids...) {
		amb.qsteps = 0
		// (the flag may be stale: whoever completed the operation the child was
		// waiting for did not clear it - only an attempt of its own tells)
		for tries := 0; tries < 100000 && !k.done; tries++ {
			k.blocked = false
			ambRun(k)
			if k.blocked {
				break
			}
		}
	}
	amb.quiescing = false
	var keep, victims []*Task
	extra := -maxSurvivors
	for _, k := range amb.kids {
		if !k.initBorn && !k.runaway {
			extra++
		}
	}
	for _, k := range amb.kids { // oldest first
		switch {
		case k.runaway:
			victims = append(victims, k)
		case !k.initBorn && extra > 0:
			extra--
			victims = append(victims, k)
		default:
			k.daemon = true
			keep = append(keep, k)
		}
	}
	if len(victims) > 0 {
		amb.kids = victims
		for _, v := range victims {
			v.victim = true
		}
		for tries := 0; len(amb.kids) > 0 && tries < 4000; tries++ {
			ambRun(amb.kids[0])
		}
		// whatever could not be unwound stays parked for ever
	}
	amb.kids = keep
	amb.base = base
	ambRefreshHook()
}

// ambQuiesce lets every daemon run until it blocks (waits for work): the state
// a run starts from must not depend on where the previous run left a goroutine
// that lives as long as the process.
func ambQuiesce() {
	if len(amb.kids) == 0 {
		return
	}
	amb.quiescing = true
	for _, d := range append([]*Task{}, amb.kids...) {
		if !d.daemon {
			continue
		}
		amb.qsteps = 0
		for tries := 0; tries < 100000 && !d.done; tries++ {
			d.blocked = false
			ambRun(d)
			if d.blocked {
				break
			}
		}
	}
	amb.quiescing = false
}

// ambSettle is called where the harness may or may not fill a cache (before
// the lookup): the daemons come to rest either way.
func ambSettle() {
	if amb.on && amb.cur == nil && curSim == nil {
		ambQuiesce()
	}
}

// ambBetweenCalls is called when a library call made by the harness goroutine
// has returned: with a probability chosen per run (0, 0, 1/4 or 1/32) the
// children that are still alive run until they end or block. "The background goroutine finishes between two API
// calls" is the most likely timing in a real program and, for a goroutine that
// a load left behind, the one that lets it meet the NEXT content of the
// instance.
func ambBetweenCalls() {
	if !amb.on || len(amb.kids) == 0 || amb.cur != nil || curSim != nil || amb.quiescing {
		return
	}
	if amb.pDrain == 0 || !amb.rng.Chance(amb.pDrain) {
		return
	}
	base := amb.base
	amb.base = nil // nobody's call: no budget is charged
	amb.quiescing = true
	for _, k := range append([]*Task{}, amb.kids...) {
		amb.qsteps = 0
		// (the flag may be stale: whoever completed the operation the child was
		// waiting for did not clear it - only an attempt of its own tells)
		for tries := 0; tries < 100000 && !k.done; tries++ {
			k.blocked = false
			ambRun(k)
			if k.blocked {
				break
			}
		}
	}
	amb.quiescing = false
	amb.base = base
	ambRefreshHook()
}

// noteSpawn: the collector is switched off while a run executes (12.5); a run
// that starts tens of thousands of goroutines needs one now and then (stacks of
// finished goroutines). By count, so that it happens at the same points in
// every execution of the run.
var spawnedTotal int64

func noteSpawn() {
	if spawnedTotal++; spawnedTotal%20000 == 0 {
		runtime.GC()
	}
}

// Locks of the code under test held by the running task (xsimrt.LockHook).
type heldLock struct {
	key    interface{}
	try    func() bool
	unlock func()
	read   bool
}

var mainHeld []heldLock // ... by the harness goroutine

func curHeld() *[]heldLock {
	if s := curSim; s != nil && s.cur != nil {
		return &s.cur.held
	}
	if amb.cur != nil {
		return &amb.cur.held
	}
	return &mainHeld
}

func locksHeld() int { return len(*curHeld()) }

func lockHook(key interface{}, try func() bool, unlock func(), delta int) {
	h := curHeld()
	if delta > 0 {
		*h = append(*h, heldLock{key, try, unlock, delta == 2})
		return
	}
	for i := len(*h) - 1; i >= 0; i-- {
		if (*h)[i].key == key {
			*h = append((*h)[:i:i], (*h)[i+1:]...)
			return
		}
	}
}

// releaseHeld: a task that had to be unwound while it was blocked (the only
// place left where a critical section can be cut short) still holds locks;
// they are released on its behalf, last one first, otherwise a package-level
// mutex stays locked for every later run. The TryLock in front makes this safe
// against bookkeeping gaps: unlocking a mutex that is not locked is fatal in Go.
func releaseHeld(h *[]heldLock) {
	for i := len(*h) - 1; i >= 0; i-- {
		e := (*h)[i]
		if !e.read && e.try != nil && e.try() {
			// it was free after all (released on a path the instrumenter did
			// not see); we hold it now
			e.unlock()
			continue
		}
		e.unlock()
	}
	*h = nil
}
