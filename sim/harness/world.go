package main

import (
	"bytes"
	"fmt"

	"github.com/openacid/slim/xscribble"
)

// The simulated environment (stubs): a disk whose files have a durable prefix,
// and a buffer pool handing out canary-guarded buffers that can be recycled.

// ---------------------------------------------------------------------------
// Disk

type diskFile struct {
	data    []byte
	durable int
}

type Disk struct {
	files  map[string]*diskFile
	writes int64
	crashs int64
}

func newDisk() *Disk { return &Disk{files: map[string]*diskFile{}} }

// Write persists data in chunks whose sizes come from chunk(); if crashAt >= 0
// the writer dies once crashAt bytes are durable (a strict prefix survives).
func (d *Disk) Write(name string, data []byte, chunk func() int, crashAt int) {
	f := &diskFile{}
	d.files[name] = f
	for off := 0; off < len(data); {
		n := 1
		if chunk != nil {
			n = chunk()
		}
		if n < 1 {
			n = 1
		}
		if off+n > len(data) {
			n = len(data) - off
		}
		if crashAt >= 0 && off+n >= crashAt {
			n = crashAt - off
			f.data = append(f.data, data[off:off+n]...)
			f.durable = len(f.data)
			d.crashs++
			return
		}
		f.data = append(f.data, data[off:off+n]...)
		f.durable = len(f.data)
		d.writes++
		off += n
	}
}

// Read returns a private copy of the durable bytes with cap == len.
func (d *Disk) Read(name string) []byte {
	f := d.files[name]
	if f == nil {
		return nil
	}
	out := make([]byte, f.durable)
	copy(out, f.data[:f.durable])
	return out[:len(out):len(out)]
}

// ---------------------------------------------------------------------------
// Buffer pool

const (
	canaryLen  = 32
	canaryByte = 0xC5
	spareByte  = 0x5C
)

// PoolBuf is a caller-owned buffer: buf = arena[canaryLen : canaryLen+n] with
// spare capacity behind len (filled with spareByte) and canaries on both sides.
type PoolBuf struct {
	arena []byte
	Buf   []byte
	snap  []byte // snapshot of the whole arena
}

func newPoolBuf(content []byte, spare int) *PoolBuf {
	n := len(content)
	arena := make([]byte, canaryLen+n+spare+canaryLen)
	for i := range arena {
		arena[i] = canaryByte
	}
	copy(arena[canaryLen:], content)
	for i := canaryLen + n; i < canaryLen+n+spare; i++ {
		arena[i] = spareByte
	}
	p := &PoolBuf{arena: arena}
	p.Buf = arena[canaryLen : canaryLen+n : canaryLen+n+spare]
	p.Snapshot()
	return p
}

func (p *PoolBuf) Snapshot() { p.snap = append(p.snap[:0], p.arena...) }

// Check reports the first difference between the arena and its snapshot.
func (p *PoolBuf) Check() string {
	if bytes.Equal(p.arena, p.snap) {
		return ""
	}
	for i := range p.arena {
		if p.arena[i] != p.snap[i] {
			region := "content"
			switch {
			case i < canaryLen:
				region = "canary-before"
			case i >= canaryLen+len(p.Buf)+(cap(p.Buf)-len(p.Buf)):
				region = "canary-after"
			case i >= canaryLen+len(p.Buf):
				region = "spare-capacity"
			}
			return fmt.Sprintf("%s byte %d changed %#02x -> %#02x", region, i-canaryLen, p.snap[i], p.arena[i])
		}
	}
	return ""
}

// scribble overwrites buf[from:to] according to pattern (the writes happen in
// the race-instrumented package xscribble).
func scribble(buf []byte, from, to int, pattern string, r *Rng, other []byte) {
	st := r.U64() | 1
	xscribble.Fill(buf, from, to, pattern, &st, other)
}
