package main

import (
	"bytes"
	"fmt"
	"sort"
	"strings"
)

// Generators. Shape diversity matters although every oracle is differential:
// different shapes run different code (257-bit nodes, short-node tables,
// stored prefixes, end-of-key labels, de-duplicated leaves, variable width
// values), and a defect or seeded change may only manifest on one of them.

type GenLimits struct {
	MaxKeys   int // upper bound of generated key-set size
	BigChance float64
}

var alphabets = []string{
	"ab",
	"abcdefghijklmnop",
	"\x00\x01\xfe\xff",
	"0123456789",
	"\x00\x10\x20\x30\x40\x50\x60\x70\x80\x90\xa0\xb0\xc0\xd0\xe0\xf0",
	"\x00\x0f\xf0\xff\x7f\x80",
	"acegikmoqsuwy02468ACEGIKMOQSUWY", // > 16 symbols, > 10 distinct bytes: 257-bit nodes
}

func sortUniq(set map[string]bool) [][]byte {
	ks := make([]string, 0, len(set))
	for k := range set {
		ks = append(ks, k)
	}
	sort.Strings(ks)
	out := make([][]byte, len(ks))
	for i, k := range ks {
		out[i] = []byte(k)
	}
	return out
}

// wordBoundarySizes: key counts at and around multiples of the machine word
// and of the rank-index strides (64, 128): bitmaps without a partial last
// word, off-by-one errors in word counts.
var wordBoundarySizes = []int{63, 64, 65, 127, 128, 129, 191, 192, 193, 255, 256, 257, 319, 320, 383, 384, 511, 512, 513, 640, 1023, 1024, 1025, 2047, 2048, 4095, 4096, 4097, 8192, 65535, 65536, 65537}

func pickSize(r *Rng, lim GenLimits) int {
	switch r.Intn(10) {
	case 0:
		for tries := 0; tries < 20; tries++ {
			if n := wordBoundarySizes[r.Intn(len(wordBoundarySizes))]; n <= lim.MaxKeys {
				return n
			}
		}
	case 1:
		// any count: dense coverage of small sizes over many runs
		top := 1100
		if lim.MaxKeys < top {
			top = lim.MaxKeys
		}
		return r.Range(1, top)
	}
	sizes := []int{0, 1, 2, 3, 5, 8, 13, 30, 70, 150, 300, 700, 1500, 3000, 8000, 20000, 60000, 100000}
	w := []int{2, 3, 4, 6, 8, 8, 8, 10, 10, 10, 8, 6, 5, 3, 2, 1, 1, 1}
	for {
		n := sizes[r.WeightedPick(w)]
		if n <= lim.MaxKeys {
			return n
		}
	}
}

// forceKeyKind >= 0 makes genKeys use that family (set and reset by callers
// that need a particular shape).
var forceKeyKind = -1

func genKeys(r *Rng, lim GenLimits) ([][]byte, string) {
	n := pickSize(r, lim)
	kind := r.Intn(12)
	if forceKeyKind >= 0 {
		kind = forceKeyKind
		if n < 800 && lim.MaxKeys >= 800 {
			n = r.Range(800, lim.MaxKeys)
		}
	}
	if n > 20000 && (kind == 4 || kind == 9 || kind == 10) {
		// long-key families: bound the total key volume (a 10^5-key set with
		// 400-byte shared runs costs billions of steps per build and starves
		// the rest of the tier)
		n = 20000
	}
	set := map[string]bool{}
	name := ""
	switch kind {
	case 0, 1: // random over a small alphabet, optional shared prefixes
		alpha := alphabets[r.Intn(len(alphabets))]
		maxl := 1 + r.Intn(10)
		name = fmt.Sprintf("alpha%d/l%d", len(alpha), maxl)
		pref := ""
		if r.Chance(0.3) {
			pref = strings.Repeat(string(alpha[r.Intn(len(alpha))]), r.Range(1, 60))
		}
		for tries := 0; len(set) < n && tries < n*20+20; tries++ {
			l := r.Intn(maxl + 1)
			b := make([]byte, l)
			for i := range b {
				b[i] = alpha[r.Intn(len(alpha))]
			}
			s := string(b)
			if pref != "" && r.Chance(0.6) {
				s = pref + s
			}
			set[s] = true
		}
	case 2: // full byte range
		maxl := 1 + r.Intn(6)
		name = fmt.Sprintf("bytes/l%d", maxl)
		for tries := 0; len(set) < n && tries < n*20+20; tries++ {
			set[string(r.Bytes(r.Intn(maxl+1)))] = true
		}
	case 3: // prefix chains: keys that are prefixes of keys
		name = "chains"
		alpha := alphabets[r.Intn(len(alphabets))]
		for tries := 0; len(set) < n && tries < n*4+20; tries++ {
			l := r.Range(1, 12)
			b := make([]byte, l)
			for i := range b {
				b[i] = alpha[r.Intn(len(alpha))]
			}
			from := r.Intn(l + 1)
			for j := from; j <= l && len(set) < n; j++ {
				set[string(b[:j])] = true
			}
			if len(set) >= n {
				break
			}
		}
	case 4: // long steps: few keys sharing very long runs
		name = "steps"
		base := r.Bytes(r.Range(20, 400))
		for tries := 0; len(set) < n && tries < n*20+20; tries++ {
			cut := r.Intn(len(base) + 1)
			b := append([]byte{}, base[:cut]...)
			b = append(b, r.Bytes(r.Intn(3))...)
			if r.Chance(0.3) {
				b = append(b, base[cut:]...)
			}
			set[string(b)] = true
		}
	case 5: // wide fan-out at the top levels (big inner nodes)
		name = "fanout"
		depth := r.Range(1, 3)
		for tries := 0; len(set) < n && tries < n*20+20; tries++ {
			b := r.Bytes(depth)
			b = append(b, []byte(fmt.Sprintf("%03d", r.Intn(1000)))[:r.Intn(4)]...)
			set[string(b)] = true
		}
	case 6: // regular sets: repeated label bitmaps -> short-node tables
		stride := r.PickI(1, 2, 3, 7, 10, 16, 100)
		name = fmt.Sprintf("regular/s%d", stride)
		format := r.PickS("k%05d", "%08x", "user:%06d:x", "%d")
		off := r.Intn(1000)
		for i := 0; len(set) < n; i++ {
			set[fmt.Sprintf(format, off+i*stride)] = true
		}
	case 7: // sub-sample of an archived key set
		names := []string{"10vl5", "11vl5", "300vl50", "20kl10", "20kvl10", "10ll16k", "50kl10", "50kvl10"}
		nm := names[r.Intn(len(names))]
		ks := keysetOf(nm)
		name = "testkeys/" + nm
		if len(ks) == 0 {
			break
		}
		if nm == "10ll16k" {
			for _, k := range ks {
				set[k] = true
			}
			break
		}
		start := r.Intn(len(ks))
		step := r.Range(1, 5)
		for i := start; i < len(ks) && len(set) < n; i += step {
			set[ks[i]] = true
		}
	case 9: // long unique tails: short random head, then a tail of 33..300 bytes
		// (leaf tails, stored leaf prefixes and tail comparisons beyond the
		// usual small-buffer sizes 16/32/64/128/256)
		name = "longtails"
		head := r.Range(1, 4)
		tailMax := r.PickI(40, 70, 140, 300)
		for tries := 0; len(set) < n && tries < n*20+20; tries++ {
			b := r.Bytes(head)
			if r.Chance(0.5) {
				for i := range b {
					b[i] = "abcd"[int(b[i])%4]
				}
			}
			tl := r.Range(33, tailMax)
			t := make([]byte, tl)
			x := r.U64()
			for i := range t {
				x = x*6364136223846793005 + 1442695040888963407
				t[i] = "0123456789abcdefghijklmnopqrstuvwxyz"[(x>>58)%36]
			}
			set[string(append(b, t...))] = true
		}
	case 10: // long shared inner prefixes: groups of keys sharing 9..200 byte runs below a fan-out
		name = "longprefix"
		groups := 1 + n/8
		for g := 0; g < groups && len(set) < n; g++ {
			p := append(r.Bytes(r.Range(1, 2)), []byte(strings.Repeat(string(rune('a'+g%26)), r.PickI(9, 17, 33, 65, 129, 200)))...)
			for j := 0; j < 8 && len(set) < n; j++ {
				set[string(append(append([]byte{}, p...), r.Bytes(r.Range(1, 3))...))] = true
			}
		}
	case 11: // many 257-bit nodes: every node of the first two or three levels has more than 10 children
		// (the builder keeps creating big nodes only as long as EVERY node in
		// breadth-first order fans out that much, so random fan-out rarely gives
		// more than a handful of them)
		f := r.PickI(12, 24, 64, 200)
		sd := r.PickI(12, 16, 32)
		for f*sd > n && f > 12 {
			f /= 2
		}
		third := 1
		if n >= f*sd*12 && r.Chance(0.5) {
			third = 12
		}
		name = fmt.Sprintf("bignodes/%dx%dx%d", f, sd, third)
		fb, tb := r.Perm(256)[:f], r.Perm(256)[:third]
		for _, a := range fb {
			// every second-level node gets its OWN label set (a cache that mixes
			// up two nodes is only visible if their label lists differ)
			sb := r.Perm(256)[:sd+r.Intn(6)]
			for _, b := range sb {
				for _, t := range tb {
					k := []byte{byte(a), byte(b)}
					if third > 1 {
						k = append(k, byte(t))
					}
					k = append(k, []byte(fmt.Sprintf("%03x", r.Intn(4096)))[:r.Range(0, 3)]...)
					set[string(k)] = true
				}
			}
		}
	case 8: // binary caterpillar / nibble boundaries
		name = "caterpillar"
		b := []byte{}
		for len(set) < n && len(b) < 4000 {
			set[string(append(append([]byte{}, b...), byte(r.PickI(0x00, 0x01, 0x0f, 0x10, 0x80, 0xf0, 0xff))))] = true
			b = append(b, byte(r.PickI(0x00, 0x08, 0x80, 0x88, 0xff)))
			if r.Chance(0.2) {
				set[string(b)] = true
			}
		}
	}
	if r.Chance(0.08) {
		set[""] = true
	}
	return sortUniq(set), name
}

func genOpt(r *Rng) [4]int8 {
	var o [4]int8
	for i := range o {
		o[i] = int8(r.Intn(3)) - 1
	}
	switch r.Intn(10) {
	case 0, 1, 2:
		// Complete tries are the only ones that scan: bias towards them
		o[3] = 1
	case 3:
		o = [4]int8{-1, -1, -1, -1}
	}
	return o
}

func genVals(r *Rng, n int) []int64 {
	switch r.Intn(8) {
	case 0, 1:
		return nil
	case 2, 3, 4:
		v := make([]int64, n)
		for i := range v {
			v[i] = int64(i)
		}
		return v
	default:
		// run-length duplicated
		v := make([]int64, n)
		id := int64(0)
		maxRun := r.PickI(2, 3, 8, 50)
		for i := 0; i < n; {
			run := r.Range(1, maxRun)
			for j := 0; j < run && i < n; j++ {
				v[i] = id
				i++
			}
			if r.Chance(0.9) {
				id++
			} else if id > 0 {
				id-- // a value returning later (non adjacent duplicate)
			}
		}
		return v
	}
}

func genSpec(r *Rng, lim GenLimits) (TrieSpec, string) {
	keys, name := genKeys(r, lim)
	s := TrieSpec{Keys: keys, Opt: genOpt(r)}
	w := []int{2, 2, 6, 3, 2, 2, 2, 3, 4, 3, 2, 2, 1, 1, 1, 2, 1, 2}
	s.Enc = encKinds[r.WeightedPick(w)]
	s.ValIDs = genVals(r, len(keys))
	return s, name
}

// genBigValueSpec: few keys, huge values. Size thresholds in value handling
// ("only arrays above N bytes take the fast path") are cheap to cross this way:
// 2 000..9 000 keys with 1 KiB values give 2..9 MiB of leaf bytes while the
// trie itself stays small.
func genBigValueSpec(r *Rng) (TrieSpec, string) {
	n := r.PickI(80, 1100, 2200, 4500, 9000)
	stride := r.PickI(1, 3, 7)
	set := map[string]bool{}
	format := r.PickS("k%06d", "%07x", "big/%05d/v")
	for i := 0; len(set) < n; i++ {
		set[fmt.Sprintf(format, i*stride)] = true
	}
	s := TrieSpec{Keys: sortUniq(set), Opt: genOpt(r)}
	s.Enc = r.PickS("bytes1k", "bytes1k", "bytes64", "str16long")
	s.Opt[0] = int8(r.PickI(0, 0, -1)) // mostly without de-duplication: every value is stored
	s.ValIDs = make([]int64, len(s.Keys))
	for i := range s.ValIDs {
		s.ValIDs[i] = int64(i)
	}
	return s, "bigvalues/" + s.Enc
}

// genQueries derives query strings from a key list: indexed keys, one-bit and
// one-byte mutations, proper prefixes, 0x00/0xff extensions, strings below the
// first and above the last key, empty, long, random.
func genQueries(r *Rng, keys [][]byte, n int) [][]byte {
	var qs [][]byte
	add := func(b []byte) { qs = append(qs, append([]byte{}, b...)) }
	add(nil)
	add([]byte{0})
	add([]byte{0xff, 0xff, 0xff})
	if len(keys) > 0 {
		first, last := keys[0], keys[len(keys)-1]
		if len(first) > 0 {
			add(first[:len(first)-1])
		}
		add(append(append([]byte{}, last...), 0xff))
		add(append(append([]byte{}, last...), bytes.Repeat([]byte{0x41}, 70)...))
	}
	for len(qs) < n {
		if len(keys) == 0 {
			add(r.Bytes(r.Intn(6)))
			continue
		}
		ki := r.Intn(len(keys))
		k := keys[ki]
		switch r.Intn(10) {
		case 0, 1, 2, 3:
			add(k)
			if r.Chance(0.35) {
				// aliasing partners: keys whose ORDINAL differs by a multiple of
				// a power of two collide in any direct-mapped structure indexed
				// by leaf ordinal / node id modulo 2^j
				d := (1 << uint(r.PickI(6, 8, 10, 12))) * r.Range(1, 3)
				if ki+d < len(keys) {
					add(keys[ki+d])
				} else if ki-d >= 0 {
					add(keys[ki-d])
				}
			}
		case 4:
			if len(k) > 0 {
				b := append([]byte{}, k...)
				b[r.Intn(len(b))] ^= 1 << uint(r.Intn(8))
				add(b)
			} else {
				add([]byte{1})
			}
		case 5:
			if len(k) > 0 {
				b := append([]byte{}, k...)
				b[r.Intn(len(b))] = byte(r.Intn(256))
				add(b)
			} else {
				add([]byte{0xff})
			}
		case 6:
			add(k[:r.Intn(len(k)+1)])
		case 7:
			add(append(append([]byte{}, k...), byte(r.PickI(0x00, 0xff, 0x41))))
		case 8:
			add(append(append([]byte{}, k[:r.Intn(len(k)+1)]...), r.Bytes(r.Range(1, 3))...))
		case 9:
			add(r.Bytes(r.Intn(8)))
		}
	}
	return qs
}
