package main

import (
	"fmt"
	"time"
)

// Greedy delta debugging over the explicit scenario. A candidate is accepted
// only if the same property fails with the same oracle kind.

type reducer func(s *Scenario) []func(c *Scenario) bool

func sameFailure(res *RunResult, v *Violation) bool {
	return res != nil && res.Viol != nil && res.Viol.Prop == v.Prop && res.Viol.Oracle == v.Oracle
}

func minimise(scn *Scenario, v *Violation, budget time.Duration, maxExec int) (*Scenario, *Violation, string) {
	start := time.Now()
	execs, accepted := 0, 0
	best, bestV := scn, v
	try := func(c *Scenario) bool {
		if execs >= maxExec || time.Since(start) > budget {
			return false
		}
		execs++
		res := execute(c)
		if sameFailure(res, v) {
			best, bestV = c, res.Viol
			accepted++
			return true
		}
		return false
	}
	for progress := true; progress && execs < maxExec && time.Since(start) < budget; {
		progress = false
		for _, red := range reducersFor(best) {
			cands := red(best)
			for _, mut := range cands {
				if execs >= maxExec || time.Since(start) > budget {
					break
				}
				c := best.clone()
				if !mut(c) {
					continue
				}
				if try(c) {
					progress = true
					break // candidate list was computed for the old best
				}
			}
		}
	}
	return best, bestV, fmt.Sprintf("%d re-executions, %d reductions accepted, %.1fs", execs, accepted, time.Since(start).Seconds())
}

func reducersFor(s *Scenario) []reducer {
	var rs []reducer
	switch {
	case s.C11 != nil:
		rs = append(rs, redTasks(func(s *Scenario) *[]TaskSpec { return &s.C11.Tasks }),
			redUnits(func(s *Scenario) *[]TaskSpec { return &s.C11.Tasks }),
			redSegs,
			redKeys(func(s *Scenario) *TrieSpec { return s.C11.Spec }))
	case s.C20 != nil:
		rs = append(rs, redTasks(func(s *Scenario) *[]TaskSpec { return &s.C20.Readers }),
			redUnits(func(s *Scenario) *[]TaskSpec { return &s.C20.Readers }),
			redSegs,
			redKeys(func(s *Scenario) *TrieSpec { return s.C20.Spec }))
	case s.C05 != nil:
		rs = append(rs, redC05)
	case s.C07 != nil:
		rs = append(rs, redC07)
	}
	return rs
}

func redTasks(get func(*Scenario) *[]TaskSpec) reducer {
	return func(s *Scenario) []func(*Scenario) bool {
		var out []func(*Scenario) bool
		ts := *get(s)
		for i := range ts {
			i := i
			if len(ts[i].Units) == 0 {
				continue
			}
			out = append(out, func(c *Scenario) bool {
				(*get(c))[i].Units = nil // task ids stay stable for the schedule
				return true
			})
		}
		return out
	}
}

func redUnits(get func(*Scenario) *[]TaskSpec) reducer {
	return func(s *Scenario) []func(*Scenario) bool {
		var out []func(*Scenario) bool
		ts := *get(s)
		for i := range ts {
			n := len(ts[i].Units)
			for chunk := n / 2; chunk >= 1; chunk /= 2 {
				for from := 0; from+chunk <= n; from += chunk {
					i, from, chunk := i, from, chunk
					out = append(out, func(c *Scenario) bool {
						u := (*get(c))[i].Units
						if from+chunk > len(u) {
							return false
						}
						(*get(c))[i].Units = append(append([]Unit{}, u[:from]...), u[from+chunk:]...)
						return true
					})
				}
				if chunk == 1 {
					break
				}
			}
		}
		return out
	}
}

func redSegs(s *Scenario) []func(*Scenario) bool {
	var out []func(*Scenario) bool
	if s.Strat.Kind != "replay" {
		return nil
	}
	n := len(s.Segs)
	// drop the tail
	for keep := n / 2; keep >= 0 && keep < n; keep += (n - keep + 1) / 2 {
		keep := keep
		out = append(out, func(c *Scenario) bool {
			if keep >= len(c.Segs) {
				return false
			}
			c.Segs = c.Segs[:keep]
			return true
		})
		if n-keep <= 1 {
			break
		}
	}
	// delete single segments / pairs (merging the neighbours)
	if n <= 400 {
		for i := 0; i < n; i++ {
			i := i
			out = append(out, func(c *Scenario) bool {
				if i >= len(c.Segs) {
					return false
				}
				c.Segs = trimSegs(append(append([]Seg{}, c.Segs[:i]...), c.Segs[i+1:]...))
				return true
			})
		}
	}
	return out
}

func redKeys(get func(*Scenario) *TrieSpec) reducer {
	return func(s *Scenario) []func(*Scenario) bool {
		sp := get(s)
		if sp == nil {
			return nil
		}
		var out []func(*Scenario) bool
		n := len(sp.Keys)
		for chunk := n / 2; chunk >= 1; chunk /= 2 {
			if chunk < n/64 && chunk > 1 {
				continue
			}
			for from := 0; from+chunk <= n; from += chunk {
				from, chunk := from, chunk
				out = append(out, func(c *Scenario) bool {
					p := get(c)
					if from+chunk > len(p.Keys) {
						return false
					}
					p.Keys = append(append([][]byte{}, p.Keys[:from]...), p.Keys[from+chunk:]...)
					if p.ValIDs != nil {
						p.ValIDs = append(append([]int64{}, p.ValIDs[:from]...), p.ValIDs[from+chunk:]...)
					}
					return true
				})
			}
			if chunk == 1 {
				break
			}
		}
		if len(out) > 600 {
			out = out[:600]
		}
		return out
	}
}
