package main

import (
	"encoding/binary"
	"strings"
)

// A small protobuf / pbcmpl wire walker owned by the harness (it does not use
// the generated code of the tree under test). Used for structural cut offsets
// (C07) and for reading shape features back from marshalled streams (probes).

type wireField struct {
	Num      int
	Type     int
	Start    int // offset of the tag
	ValStart int // offset of the payload (after tag and length)
	End      int // offset after the field
	Varint   uint64
}

func readVarint(b []byte, i int) (uint64, int, bool) {
	var v uint64
	for s := uint(0); s < 64; s += 7 {
		if i >= len(b) {
			return 0, i, false
		}
		c := b[i]
		i++
		v |= uint64(c&0x7f) << s
		if c < 0x80 {
			return v, i, true
		}
	}
	return 0, i, false
}

// walkWire parses one protobuf message occupying b entirely. base is added to
// all offsets.
func walkWire(b []byte, base int) ([]wireField, bool) {
	var out []wireField
	i := 0
	for i < len(b) {
		start := i
		tag, j, ok := readVarint(b, i)
		if !ok {
			return out, false
		}
		f := wireField{Num: int(tag >> 3), Type: int(tag & 7), Start: base + start}
		i = j
		switch f.Type {
		case 0:
			v, j, ok := readVarint(b, i)
			if !ok {
				return out, false
			}
			f.Varint, f.ValStart, i = v, base+i, j
		case 1:
			f.ValStart = base + i
			i += 8
		case 5:
			f.ValStart = base + i
			i += 4
		case 2:
			l, j, ok := readVarint(b, i)
			if !ok || j+int(l) > len(b) || int(l) < 0 {
				return out, false
			}
			f.ValStart = base + j
			i = j + int(l)
		default:
			return out, false
		}
		if i > len(b) {
			return out, false
		}
		f.End = base + i
		out = append(out, f)
	}
	return out, true
}

type section struct {
	Off      int // offset of the 32-byte header
	Ver      string
	BodyOff  int
	BodySize int
}

// sections splits a pbcmpl stream into its header+body sections.
func sections(b []byte) []section {
	var out []section
	off := 0
	for off+32 <= len(b) {
		ver := strings.TrimRight(string(b[off:off+16]), "\x00")
		hs := binary.LittleEndian.Uint64(b[off+16:])
		bs := binary.LittleEndian.Uint64(b[off+24:])
		if hs != 32 || bs > uint64(len(b)-off-32) {
			break
		}
		out = append(out, section{Off: off, Ver: ver, BodyOff: off + 32, BodySize: int(bs)})
		off += 32 + int(bs)
	}
	return out
}

// boundaries returns the structural offsets of a stream: header field
// boundaries, and every protobuf field boundary of each body two levels deep.
func boundaries(b []byte) []int {
	set := map[int]bool{0: true, len(b): true}
	for _, s := range sections(b) {
		for _, d := range []int{0, 16, 24, 32} {
			set[s.Off+d] = true
		}
		body := b[s.BodyOff : s.BodyOff+s.BodySize]
		fs, _ := walkWire(body, s.BodyOff)
		for _, f := range fs {
			set[f.Start], set[f.ValStart], set[f.End] = true, true, true
			if f.Type == 2 && f.End-f.ValStart > 0 && f.End-f.ValStart < 1<<20 {
				if sub, ok := walkWire(b[f.ValStart:f.End], f.ValStart); ok {
					for _, g := range sub {
						set[g.Start], set[g.ValStart], set[g.End] = true, true, true
					}
				}
			}
		}
	}
	out := make([]int, 0, len(set))
	for o := range set {
		out = append(out, o)
	}
	sortInts(out)
	return out
}

func sortInts(a []int) {
	// small helper to avoid importing sort in several files
	if len(a) < 2 {
		return
	}
	quick(a, 0, len(a)-1)
}

func quick(a []int, lo, hi int) {
	for lo < hi {
		p := a[(lo+hi)/2]
		i, j := lo, hi
		for i <= j {
			for a[i] < p {
				i++
			}
			for a[j] > p {
				j--
			}
			if i <= j {
				a[i], a[j] = a[j], a[i]
				i++
				j--
			}
		}
		if j-lo < hi-i {
			quick(a, lo, j)
			lo = i
		} else {
			quick(a, i, hi)
			hi = j
		}
	}
}

// Shape features read back from a current-format stream (single section).
type Features struct {
	OK          bool
	ShortSize   int
	BigInnerCnt int
	InnerPrefix bool // stored inner prefixes (PositionBM present)
	LeafPrefix  bool
	Leaves      bool
	VarLeaves   bool
	Empty       bool
}

func featuresOf(stream []byte) Features {
	var f Features
	secs := sections(stream)
	if len(secs) != 1 {
		return f
	}
	body := stream[secs[0].BodyOff : secs[0].BodyOff+secs[0].BodySize]
	fs, ok := walkWire(body, 0)
	if !ok {
		return f
	}
	f.OK = true
	f.Empty = true
	for _, w := range fs {
		switch w.Num {
		case 11:
			f.BigInnerCnt = int(w.Varint)
		case 14:
			f.ShortSize = int(w.Varint)
		case 20:
			f.Empty = false
		case 38: // InnerPrefixes
			if sub, ok := walkWire(body[w.ValStart:w.End], 0); ok {
				for _, g := range sub {
					if g.Num == 20 {
						f.InnerPrefix = true
					}
				}
			}
		case 58: // LeafPrefixes
			f.LeafPrefix = true
		case 60: // Leaves
			f.Leaves = true
			if sub, ok := walkWire(body[w.ValStart:w.End], 0); ok {
				for _, g := range sub {
					if g.Num == 20 {
						f.VarLeaves = true
					}
				}
			}
		}
	}
	return f
}

func (f Features) fingerprint() string {
	b := func(x bool) byte {
		if x {
			return '1'
		}
		return '0'
	}
	// short<ShortSize, two digits> big<0|1> innerprefix<0|1> leafprefix<0|1> values<present><variable width> empty<0|1>
	return string([]byte{'s', byte('0' + f.ShortSize/10), byte('0' + f.ShortSize%10), 'b', b(f.BigInnerCnt > 0), 'i', b(f.InnerPrefix), 'l', b(f.LeafPrefix), 'v', b(f.Leaves), b(f.VarLeaves), 'e', b(f.Empty)})
}

// probes: coarse reach probes for the concurrent properties.
func (f Features) probes(c map[string]int64) {
	if !f.OK {
		return
	}
	switch {
	case f.ShortSize >= 5:
		c["probe.subject_shortsize_ge5"]++
	case f.ShortSize >= 1:
		c["probe.subject_shortsize_1to4"]++
	}
	if f.BigInnerCnt > 0 {
		c["probe.subject_has_257bit_nodes"]++
	}
	if f.InnerPrefix {
		c["probe.subject_stores_inner_prefixes"]++
	}
	if f.LeafPrefix {
		c["probe.subject_stores_leaf_prefixes"]++
	}
	if f.VarLeaves {
		c["probe.subject_variable_width_values"]++
	}
	if f.Empty {
		c["probe.subject_empty"]++
	}
}
