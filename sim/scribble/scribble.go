// Package xscribble overwrites caller-owned buffers on behalf of the simulated
// buffer pool. It lives in its own package because, unlike the harness, it IS
// compiled with race instrumentation in the race lanes: the recycling writes
// must be visible to the race detector so that an instance that still reads
// the caller's buffer is reported.
package xscribble

// Fill overwrites buf[from:to] according to pattern (zero | ff | random |
// stream | invert | other). state is the caller's PRNG state for "random".
func Fill(buf []byte, from, to int, pattern string, state *uint64, other []byte) {
	if to > len(buf) {
		to = len(buf)
	}
	for i := from; i < to; i++ {
		switch pattern {
		case "zero":
			buf[i] = 0
		case "ff":
			buf[i] = 0xff
		case "random":
			x := *state
			x ^= x << 13
			x ^= x >> 7
			x ^= x << 17
			*state = x
			buf[i] = byte(x >> 24)
		case "stream":
			if len(other) > 0 {
				buf[i] = other[i%len(other)]
			} else {
				buf[i] = 0
			}
		case "invert":
			buf[i] = ^buf[i]
		default:
			buf[i] = 0xee
		}
	}
}
