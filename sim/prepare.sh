#!/bin/bash
# prepare.sh <scratch-dir> [race]
# Copies /repo's CURRENT WORKING TREE (non-test .go files, go.mod, go.sum) into
# <scratch-dir>/src, patches the dependency openacid/low (DESIGN.md 3.1d),
# instruments the copy, adds the runtime and the harness and builds
# <scratch-dir>/bin/harness (and harness-race when asked).
# Exit 2 on any failure (never a VIOLATION).
set -u
VERIF=${VERIF_DIR:-/verif}
REPO=${VERIF_REPO:-/repo}
S=$1
WANT_RACE=${2:-}

export GOFLAGS=-mod=mod GOPROXY=off GOSUMDB=off GOTOOLCHAIN=local
export GONOSUMCHECK=1 GONOSUMDB='*' GOFLAGS
unset GOROOT

fail() { echo "prepare: $*" >&2; exit 2; }

mkdir -p "$S/src" "$S/bin" "$S/out" || fail "mkdir"

# --- instrumenter binary (built by setup_cmd; rebuilt here if missing or stale)
INSTR="$VERIF/.bin/instrument"
if [ ! -x "$INSTR" ] || [ "$VERIF/sim/instrument/main.go" -nt "$INSTR" ]; then
  mkdir -p "$VERIF/.bin"
  (cd "$VERIF/sim/instrument" && go build -o "$INSTR.tmp.$$" . && mv "$INSTR.tmp.$$" "$INSTR") || fail "cannot build instrumenter"
fi

# --- copy the working tree (tracked or not: whatever is on disk now)
rsync -a --prune-empty-dirs --exclude='/.git' --exclude='/git-subrepo' --exclude='*_test.go' \
   --include='*/' --include='*.go' --include='go.mod' --include='go.sum' --exclude='*' "$REPO/" "$S/src/" || fail "copy of $REPO failed"
[ -f "$S/src/go.mod" ] || fail "no go.mod in $REPO"
MODPATH=$(awk '$1=="module"{print $2; exit}' "$S/src/go.mod")
[ -n "$MODPATH" ] || fail "no module path"

# --- dependency patch: openacid/low bitstr.StrCmpUpto (unsafe header cast -> copy)
LOWVER=$(awk '$1=="github.com/openacid/low"{print $2; exit}' "$S/src/go.mod")
[ -n "$LOWVER" ] || LOWVER=v0.1.21
LOWSRC="$(go env GOMODCACHE)/github.com/openacid/low@$LOWVER"
[ -d "$LOWSRC" ] || fail "dependency source $LOWSRC not in module cache"
cp -r "$LOWSRC" "$S/src/xlow" && chmod -R u+w "$S/src/xlow" || fail "copy low"
find "$S/src/xlow" -name '*_test.go' -delete
python3 - "$S/src/xlow/bitstr/bitstr.go" <<'EOF' || fail "dependency patch did not apply"
import sys,re
p=sys.argv[1]; s=open(p).read()
old="return CmpUpto(*(*[]byte)(unsafe.Pointer(&a)), b)"
if old not in s: sys.exit(1)
s=s.replace(old,"return CmpUpto([]byte(a), b)")
# drop the now possibly unused unsafe import
if "unsafe." not in s.replace('"unsafe"',''):
    s=re.sub(r'\n\s*"unsafe"\n',"\n",s)
open(p,"w").write(s)
EOF

# --- go.mod of the scratch module: go >= 1.18 (generic MapKeys, TryLock), replace low
python3 - "$S/src/go.mod" <<'EOF' || fail "go.mod rewrite"
import sys,re
p=sys.argv[1]; s=open(p).read()
m=re.search(r'^go\s+(\d+)\.(\d+)(\.\d+)?\s*$',s,re.M)
if m is None:
    s+="\ngo 1.18\n"
elif (int(m.group(1)),int(m.group(2)))<(1,18):
    s=s[:m.start()]+"go 1.18"+s[m.end():]
s+="\nreplace github.com/openacid/low => ./xlow\n"
open(p,"w").write(s)
EOF

# --- runtime (must exist before instrumenting so the import resolves)
mkdir -p "$S/src/xsimrt" && cp "$VERIF/sim/simrt/rt.go" "$S/src/xsimrt/rt.go" || fail "copy runtime"
mkdir -p "$S/src/xscribble" && cp "$VERIF/sim/scribble/scribble.go" "$S/src/xscribble/scribble.go" || fail "copy scribble"

# --- instrument: import closure of the four public packages
PATS=""
for d in trie array encode index; do [ -d "$S/src/$d" ] && PATS="$PATS ./$d"; done
[ -n "$PATS" ] || fail "none of trie/array/encode/index exists"
(cd "$S/src" && "$INSTR" "$S/src" "$MODPATH/xsimrt" $PATS > "$S/out/instrument.json") || fail "instrumentation failed (tree does not load/type-check?)"

# --- fingerprint of the instrumented sources
(cd "$S/src" && find . -name '*.go' -not -path './xlow/*' -not -path './xharness/*' | LC_ALL=C sort | xargs sha256sum | sha256sum | cut -d' ' -f1) > "$S/out/tree.sha256"

# --- harness
mkdir -p "$S/src/xharness" && cp "$VERIF"/sim/harness/*.go "$S/src/xharness/" || fail "copy harness"
if [ "$MODPATH" != "github.com/openacid/slim" ]; then
  sed -i "s#github.com/openacid/slim/#$MODPATH/#g" "$S/src/xharness/"*.go
fi
(cd "$S/src" && go build -o "$S/bin/harness" ./xharness) >"$S/out/build.log" 2>&1 || { cat "$S/out/build.log" >&2; fail "harness build failed"; }
if [ -n "$WANT_RACE" ]; then
  # the harness and the runtime shim are NOT race-instrumented (controlled race lane, DESIGN 12.10)
  (cd "$S/src" && CGO_ENABLED=1 go build -race -gcflags="$MODPATH/xharness=-race=false" -gcflags="$MODPATH/xsimrt=-race=false" -o "$S/bin/harness-race" ./xharness) >"$S/out/build-race.log" 2>&1 || { cat "$S/out/build-race.log" >&2; fail "race build failed"; }
fi
exit 0
