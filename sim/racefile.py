#!/usr/bin/env python3
"""Helpers for the race lanes of /verif/check.
racefile.py replay <current-scenario.json> <stderr.log> <out.json>   attach the race report to the scenario that was running
racefile.py part <out.json> <prop> <tier> <seed> <worker> <replay> <lane>   synthesise the partial result of a halted worker
"""
import json, sys
if sys.argv[1] == "replay":
    rf = json.load(open(sys.argv[2])); log = open(sys.argv[3], errors="replace").read()
    i = log.find("WARNING: DATA RACE"); rf["race_report"] = log[i:i+6000] if i >= 0 else log[-3000:]
    json.dump(rf, open(sys.argv[4], "w"), indent=1)
else:
    p, prop, tier, seed, w, rf, lane = sys.argv[2:]
    how = "under the simulator's schedule" if lane == "racesim" else "free-running goroutines"
    json.dump({"property": prop, "tier": tier, "lane": lane, "seed": int(seed), "worker": int(w), "runs": 1, "evaluations": 1,
               "counters": {}, "violations": [{"replay": rf, "violation": {"property": prop, "oracle": "data-race", "where": "race-detector",
               "detail": "the Go race detector reported a data race (" + how + "; see race_report in the replay file)"}}]}, open(p, "w"))
