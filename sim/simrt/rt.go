// Package xsimrt is the tiny runtime that the instrumenter (/verif/sim/instrument)
// links into a scratch copy of openacid/slim. With every variable below left nil
// (the race lane, or any ordinary use) each function degrades to the original
// behaviour: Yield is a nil check, MapKeys iterates in canonical order, LockVia
// blocks on the real lock, OnceDo is sync.Once.Do.
package xsimrt

import (
	"fmt"
	"reflect"
	"runtime"
	"sort"
	"sync"
	"time"
	"unsafe"
)

// Hook is called before every instrumented statement. Set once by the
// simulator before any task goroutine starts.
var Hook func(site int)

// Yield marks a statement boundary of the code under test. It is small enough
// to be inlined into its (possibly race-instrumented) callers, so it must not
// touch shared mutable state of its own.
func Yield(site int) {
	if h := Hook; h != nil {
		h(site)
	}
}

// Perm decides the visiting order of a map range over n keys (keys already
// canonically sorted). nil = identity.
var Perm func(n int) []int

// MapRanges counts how often a seamed map range was entered with n >= 2
// (only maintained when Perm is set; the simulator is single-running-task).
var MapRanges int

type ordered interface {
	~int | ~int8 | ~int16 | ~int32 | ~int64 | ~uint | ~uint8 | ~uint16 | ~uint32 | ~uint64 | ~uintptr | ~float32 | ~float64 | ~string
}

// MapKeys returns the keys of m in the order chosen by Perm. Every order the Go
// spec allows for a map range is a permutation of the key set, so a program
// using MapKeys exhibits a subset of the spec-allowed behaviours.
func MapKeys[M ~map[K]V, K ordered, V any](m M) []K {
	ks := make([]K, 0, len(m))
	for k := range m {
		ks = append(ks, k)
	}
	sort.Slice(ks, func(i, j int) bool { return ks[i] < ks[j] })
	if p := Perm; p != nil && len(ks) >= 2 {
		MapRanges++
		perm := p(len(ks))
		out := make([]K, len(ks))
		for i, j := range perm {
			out[i] = ks[j]
		}
		return out
	}
	return ks
}

// MapKeysAny is MapKeys for key types without a natural order (structs, arrays,
// pointers, interfaces): the canonical order is the order of the keys' %#v
// renderings (ties and pointer-valued keys make it merely deterministic per
// process, which is still one of the permutations the Go spec allows).
func MapKeysAny[M ~map[K]V, K comparable, V any](m M) []K {
	type kr struct {
		k K
		r string
	}
	ks := make([]kr, 0, len(m))
	for k := range m {
		ks = append(ks, kr{k, fmt.Sprintf("%#v", k)})
	}
	sort.SliceStable(ks, func(i, j int) bool { return ks[i].r < ks[j].r })
	out := make([]K, len(ks))
	for i := range ks {
		out[i] = ks[i].k
	}
	if p := Perm; p != nil && len(out) >= 2 {
		MapRanges++
		perm := p(len(out))
		res := make([]K, len(out))
		for i, j := range perm {
			res[i] = out[j]
		}
		return res
	}
	return out
}

// ForceSwitch parks the calling task and lets another one run. Set by the
// simulator only.
var ForceSwitch func()

// switchNow hands the baton over through whatever scheduler owns the process
// NOW: a goroutine of the code under test can outlive the Sim that was running
// when it started to wait, so the variable is read at every attempt.
//
//go:noinline
func switchNow() {
	if f := ForceSwitch; f != nil {
		f()
	}
}

// LockVia replaces x.Lock() / x.RLock(): under the simulator a task must never
// block on a real mutex while holding the baton (the holder may be parked), so
// it spins on TryLock and hands the baton over between attempts.
//
//go:noinline
func LockVia(try func() bool, lock func()) {
	fs := ForceSwitch
	if fs == nil {
		lock()
		return
	}
	for !try() {
		switchNow()
	}
}

// LockHook tells the simulator which locks the running task holds (key = the
// address of the mutex; delta +1 after an acquisition, -1 after a release). The
// simulator never unwinds a task at a yield inside a critical section (the data
// the lock protects, and the lock itself, may outlive the run in package-level
// variables), and releases what a task still holds when it had to be unwound
// while it was blocked.
var LockHook func(key interface{}, try func() bool, unlock func(), delta int)

// LockVia2 is LockVia with the bookkeeping for LockHook.
//
//go:noinline
func LockVia2(key interface{}, try func() bool, lock func(), unlock func(), read bool) {
	LockVia(try, lock)
	if h := LockHook; h != nil {
		d := +1
		if read {
			d = +2 // a read lock of an RWMutex
		}
		h(key, try, unlock, d)
	}
}

// UnlockVia replaces x.Unlock() / x.RUnlock().
//
//go:noinline
func UnlockVia(key interface{}, unlock func()) {
	unlock()
	if h := LockHook; h != nil {
		h(key, nil, nil, -1)
	}
}

type onceState struct {
	running, done bool
}

// onceTab is a plain slice, not a map: Go's map operations are race-annotated
// inside the runtime even when this package is compiled without race
// instrumentation, and the table is shared by all tasks.
type onceEntry struct {
	o *sync.Once
	s *onceState
}

var onceTab []onceEntry

// ResetOnceTable forgets all sync.Once instances seen so far (between runs).
//
//go:noinline
func ResetOnceTable() {
	// an initialiser that is still running belongs to a goroutine that outlives
	// the run
	keep := onceTab[:0]
	for _, e := range onceTab {
		if e.s.running && !e.s.done {
			keep = append(keep, e)
		}
	}
	onceTab = keep
}

// OnceDo replaces o.Do(f). Under the simulator exactly one running task touches
// onceTab at a time (tasks are run one at a time), so no lock is needed.
//
//go:noinline
func OnceDo(o *sync.Once, f func()) {
	fs := ForceSwitch
	if fs == nil {
		o.Do(f)
		return
	}
	var s *onceState
	for i := range onceTab {
		if onceTab[i].o == o {
			s = onceTab[i].s
			break
		}
	}
	if s == nil {
		s = &onceState{}
		onceTab = append(onceTab, onceEntry{o, s})
	}
	for {
		if s.done {
			// go through the real Once as well: its atomic load is the acquire
			// that orders the initialiser's writes before this caller's reads
			// (the race detector must see that edge)
			o.Do(func() {})
			return
		}
		if !s.running {
			s.running = true
			defer func() {
				// like sync.Once: a panicking f still counts as done
				s.done = true
			}()
			o.Do(f)
			return
		}
		switchNow()
	}
}

// --- goroutines started inside the code under test --------------------------
//
// `go f(x)` is rewritten to xsimrt__.Go(func() { f(x) }) (arguments hoisted so
// that they are still evaluated by the parent). Under the simulator the new
// goroutine becomes one more task of the seeded scheduler; without it Go is the
// go statement.

// GoHook is set by the simulator (sim and controlled race lanes, always).
var GoHook func(body func())

// PreMain is true until the harness has decided how goroutines are run; bodies
// started before that (package initialisers of the code under test) are queued
// in Pending and handed over by the harness.
var (
	PreMain = true
	Pending []func()
)

//go:noinline
func Go(body func()) {
	if h := GoHook; h != nil {
		h(body)
		return
	}
	if PreMain {
		Pending = append(Pending, body)
		return
	}
	go body()
}

// sync.WaitGroup: the counter is mirrored in a side table so that Wait can
// poll it (and hand the baton over) instead of blocking the only running task.
// The real methods are always called as well: they carry the happens-before
// edges the race detector must see.
type wgEntry struct {
	wg   *sync.WaitGroup
	n    int
	perm bool
}

var wgTab []*wgEntry

//go:noinline
func ResetWGTable() {
	keep := wgTab[:0]
	for _, e := range wgTab {
		if e.perm || e.n != 0 {
			keep = append(keep, e)
		}
	}
	for i := len(keep); i < len(wgTab); i++ {
		wgTab[i] = nil
	}
	wgTab = keep
}

//go:noinline
func wgFind(wg *sync.WaitGroup) *wgEntry {
	for _, e := range wgTab {
		if e.wg == wg {
			return e
		}
	}
	e := &wgEntry{wg: wg, perm: PreMain}
	wgTab = append(wgTab, e)
	return e
}

//go:noinline
func WGAdd(wg *sync.WaitGroup, n int) {
	if ForceSwitch != nil || PreMain {
		wgFind(wg).n += n
	}
	wg.Add(n)
}

//go:noinline
func WGDone(wg *sync.WaitGroup) {
	if ForceSwitch != nil || PreMain {
		wgFind(wg).n--
	}
	wg.Done()
}

//go:noinline
func WGWait(wg *sync.WaitGroup) {
	if fs := ForceSwitch; fs != nil {
		e := wgFind(wg)
		for e.n > 0 {
			switchNow()
		}
	}
	wg.Wait()
}

// --- channels ----------------------------------------------------------------
//
// Under the simulator exactly one task runs at a time, so a task must never
// block in a real channel operation while it holds the baton. Channels made by
// the code under test (`make(chan T, n)` is wrapped in MakeChan) are therefore
// emulated in a side table with the semantics of the Go runtime (buffer,
// rendezvous through wait queues, close, select picking among ready cases);
// blocking means handing the baton over until another task completes the
// operation. Channels that were not made by instrumented code (time.After, a
// context) are polled for real. Without the simulator every function below is
// the plain Go operation.

// GCEveryOps: collect after that many emulated channel operations (0 = never).
var (
	GCEveryOps int64
	chanOps    int64
)

// Choice picks one of n alternatives (select with several ready cases). Set by
// the simulator; nil = the first one.
var Choice func(n int) int

// ForeignWaits counts polls of channels the simulator does not own.
var ForeignWaits int64

type waiter struct {
	fired int // -1 while blocked; index of the completed case afterwards
	v     interface{}
	ok    bool
	panic string
}

type sudog struct {
	w   *waiter
	idx int
	v   interface{} // value to send
}

type chanState struct {
	key    unsafe.Pointer
	capa   int
	buf    []interface{}
	closed bool
	perm   bool // made by a package initialiser: lives as long as the process
	sendq  []*sudog
	recvq  []*sudog
	mu     sync.Mutex // never contended: Lock/Unlock are the edges the race detector sees
}

var chanTab []*chanState

//go:noinline
func ResetChanTable() {
	// Between runs: a channel somebody still waits on, or that holds values, is
	// in use by a goroutine that outlives the run (a lazily started worker and
	// its request channel); the others are forgotten, otherwise thousands of
	// runs pile up dead channels.
	live := func(q []*sudog) bool {
		for _, sg := range q {
			if sg.w.fired == -1 {
				return true
			}
		}
		return false
	}
	keep := chanTab[:0]
	for _, c := range chanTab {
		if c.perm || (len(c.buf) > 0 && !c.closed) || live(c.recvq) || live(c.sendq) {
			keep = append(keep, c)
		}
	}
	for i := len(keep); i < len(chanTab); i++ {
		chanTab[i] = nil
	}
	chanTab = keep
	for i := range chanBuckets {
		chanBuckets[i] = nil
	}
	for _, c := range chanTab {
		b := chanBucket(c.key)
		chanBuckets[b] = append(chanBuckets[b], c)
	}
}

//go:noinline
func chanKey(c interface{}) unsafe.Pointer {
	rv := reflect.ValueOf(c)
	if rv.Kind() != reflect.Chan || rv.IsNil() {
		return nil
	}
	return rv.UnsafePointer()
}

//go:noinline
func chanFind(k unsafe.Pointer) *chanState {
	if k == nil {
		return nil
	}
	for _, c := range chanBuckets[chanBucket(k)] {
		if c.key == k {
			return c
		}
	}
	return nil
}

// chanBuckets indexes chanTab by address (plain slices: Go maps are
// race-annotated inside the runtime, and a program may make a channel per call).
var chanBuckets [4096][]*chanState

func chanBucket(k unsafe.Pointer) int { return int((uintptr(k) >> 4) % 4093) }

func chanAdd(c *chanState) {
	chanTab = append(chanTab, c)
	b := chanBucket(c.key)
	chanBuckets[b] = append(chanBuckets[b], c)
}

func (c *chanState) edge() { c.mu.Lock(); c.mu.Unlock() }

// The generic functions below are compiled inside the (possibly
// race-instrumented) package that instantiates them, like inlined code: they
// must not touch the tables themselves, only call the non-generic helpers.

//go:noinline
func simOff() bool { return ForceSwitch == nil }

//go:noinline
func regChan(rv reflect.Value) {
	// (package initialisers run before the harness has chosen the lane: register)
	if ForceSwitch == nil && !PreMain {
		return
	}
	chanAdd(&chanState{key: rv.UnsafePointer(), capa: rv.Cap(), perm: PreMain})
}

// MakeChan wraps make(chan T, n) in instrumented code.
func MakeChan[C any](c C) C {
	regChan(reflect.ValueOf(c))
	return c
}

func firstLive(q *[]*sudog) *sudog {
	for len(*q) > 0 {
		sg := (*q)[0]
		*q = (*q)[1:]
		if sg.w.fired == -1 {
			return sg
		}
	}
	return nil
}

func (c *chanState) trySend(v interface{}) bool {
	if c.closed {
		panic("send on closed channel")
	}
	if sg := firstLive(&c.recvq); sg != nil {
		sg.w.fired, sg.w.v, sg.w.ok = sg.idx, v, true
		return true
	}
	if len(c.buf) < c.capa {
		c.buf = append(c.buf, v)
		return true
	}
	return false
}

func (c *chanState) tryRecv() (v interface{}, ok, ready bool) {
	if len(c.buf) > 0 {
		v = c.buf[0]
		c.buf = c.buf[1:]
		if sg := firstLive(&c.sendq); sg != nil {
			c.buf = append(c.buf, sg.v)
			sg.w.fired = sg.idx
		}
		return v, true, true
	}
	if sg := firstLive(&c.sendq); sg != nil {
		sg.w.fired = sg.idx
		return sg.v, true, true
	}
	if c.closed {
		return nil, false, true
	}
	return nil, false, false
}

// SelCase is one communication of a select (or of a single send / receive).
type SelCase struct {
	c    *chanState
	rv   reflect.Value // the real channel
	send bool
	v    interface{}
}

// SelResult is what Select reports: index of the chosen case (-1 = default),
// the value received and the comma-ok result of a receive.
type SelResult struct {
	I  int
	V  interface{}
	OK bool
}

//go:noinline
func mkCase(rv reflect.Value, send bool, v interface{}) SelCase {
	k := SelCase{rv: rv, send: send, v: v}
	if rv.IsValid() && !rv.IsNil() {
		k.c = chanFind(rv.UnsafePointer())
	}
	return k
}

func RecvCase[T any](ch <-chan T) SelCase { return mkCase(reflect.ValueOf(ch), false, nil) }

func SendCase[T any](ch chan<- T, v T) SelCase { return mkCase(reflect.ValueOf(ch), true, v) }

// As converts the value of a receive case back to the element type of ch.
func As[T any](ch <-chan T, v interface{}) T {
	if v == nil {
		var z T
		return z
	}
	return v.(T)
}

func (k *SelCase) nilChan() bool { return !k.rv.IsValid() || k.rv.IsNil() }

// try completes case k if that is possible right now.
func (k *SelCase) try() (r SelResult, done bool) {
	if k.nilChan() {
		return r, false
	}
	if k.c == nil {
		// a channel the simulator does not own: poll the real one
		ForeignWaits++
		rc := reflect.SelectCase{Dir: reflect.SelectRecv, Chan: k.rv}
		if k.send {
			rc.Dir = reflect.SelectSend
			rc.Send = reflect.ValueOf(k.v)
			if !rc.Send.IsValid() {
				rc.Send = reflect.Zero(k.rv.Type().Elem())
			}
		}
		i, v, ok := reflect.Select([]reflect.SelectCase{rc, {Dir: reflect.SelectDefault}})
		if i != 0 {
			return r, false
		}
		if !k.send && ok {
			r.V = v.Interface()
		}
		r.OK = ok
		return r, true
	}
	k.c.edge()
	if k.send {
		return r, k.c.trySend(k.v)
	}
	v, ok, ready := k.c.tryRecv()
	return SelResult{V: v, OK: ok}, ready
}

// Select is the select statement (hasDefault = it has a default clause), and,
// with one case and no default, the plain send or receive.
//
//go:noinline
func Select(hasDefault bool, cases ...SelCase) SelResult {
	fs := ForceSwitch
	if fs == nil {
		return realSelect(hasDefault, cases)
	}
	if GCEveryOps > 0 {
		// the harness switches the collector off while a run executes; a tree
		// that communicates a lot allocates a lot (boxed values, wait records)
		if chanOps++; chanOps%GCEveryOps == 0 {
			runtime.GC()
		}
	}
	n := len(cases)
	start := 0
	if ch := Choice; ch != nil && n > 1 {
		start = ch(n)
	}
	for j := 0; j < n; j++ {
		i := (start + j) % n
		if r, done := cases[i].try(); done {
			r.I = i
			return r
		}
	}
	if hasDefault {
		return SelResult{I: -1}
	}
	// block: queue on every owned channel, then hand the baton over until some
	// other task completes one of the cases (foreign channels are polled)
	w := &waiter{fired: -1}
	foreign := false
	for i := range cases {
		k := &cases[i]
		if k.nilChan() {
			continue
		}
		if k.c == nil {
			foreign = true
			continue
		}
		sg := &sudog{w: w, idx: i, v: k.v}
		if k.send {
			k.c.sendq = append(k.c.sendq, sg)
		} else {
			k.c.recvq = append(k.c.recvq, sg)
		}
	}
	defer func() {
		if w.fired == -1 {
			w.fired = -3 // unwound while blocked (the run was stopped): nobody waits any more
		}
	}()
	for w.fired == -1 {
		switchNow()
		if w.fired != -1 {
			break
		}
		if foreign {
			for i := range cases {
				if k := &cases[i]; k.c == nil && !k.nilChan() {
					if r, done := k.try(); done {
						w.fired = -2 // owned queues: this waiter is gone
						r.I = i
						return r
					}
				}
			}
		}
	}
	if w.panic != "" {
		panic(w.panic)
	}
	if k := &cases[w.fired]; k.c != nil {
		k.c.edge()
	}
	return SelResult{I: w.fired, V: w.v, OK: w.ok}
}

//go:noinline
func realSelect(hasDefault bool, cases []SelCase) SelResult {
	rcs := make([]reflect.SelectCase, 0, len(cases)+1)
	for _, k := range cases {
		rc := reflect.SelectCase{Dir: reflect.SelectRecv, Chan: k.rv}
		if k.send {
			rc.Dir = reflect.SelectSend
			rc.Send = reflect.ValueOf(k.v)
			if !rc.Send.IsValid() && k.rv.IsValid() {
				rc.Send = reflect.Zero(k.rv.Type().Elem())
			}
		}
		if !k.rv.IsValid() {
			rc.Chan = reflect.Value{}
			rc.Send = reflect.Value{}
		}
		rcs = append(rcs, rc)
	}
	if hasDefault {
		rcs = append(rcs, reflect.SelectCase{Dir: reflect.SelectDefault})
	}
	i, v, ok := reflect.Select(rcs)
	if hasDefault && i == len(cases) {
		return SelResult{I: -1}
	}
	r := SelResult{I: i, OK: ok}
	if !cases[i].send && ok {
		r.V = v.Interface()
	}
	return r
}

func Send[T any](ch chan<- T, v T) {
	if simOff() {
		ch <- v
		return
	}
	Select(false, SendCase(ch, v))
}

func Recv[T any](ch <-chan T) T {
	if simOff() {
		return <-ch
	}
	return As(ch, Select(false, RecvCase(ch)).V)
}

func Recv2[T any](ch <-chan T) (T, bool) {
	if simOff() {
		v, ok := <-ch
		return v, ok
	}
	r := Select(false, RecvCase(ch))
	return As(ch, r.V), r.OK
}

// closeSim closes an emulated channel; false = not emulated, close the real one.
//
//go:noinline
func closeSim(rv reflect.Value) bool {
	if ForceSwitch == nil || !rv.IsValid() || rv.IsNil() {
		return false
	}
	c := chanFind(rv.UnsafePointer())
	if c == nil {
		return false
	}
	c.edge()
	if c.closed {
		panic("close of closed channel")
	}
	c.closed = true
	// the real channel is closed as well (nobody uses it while the emulation
	// owns the channel): should the table forget this channel between runs,
	// whoever still holds it sees a closed channel, not an open one
	func() {
		defer func() { recover() }()
		rv.Close()
	}()
	for {
		sg := firstLive(&c.recvq)
		if sg == nil {
			break
		}
		sg.w.fired, sg.w.v, sg.w.ok = sg.idx, nil, false
	}
	for {
		sg := firstLive(&c.sendq)
		if sg == nil {
			break
		}
		sg.w.fired, sg.w.panic = sg.idx, "send on closed channel"
	}
	return true
}

// Close is close(ch).
func Close[T any](ch chan<- T) {
	if !closeSim(reflect.ValueOf(ch)) {
		close(ch)
	}
}

//go:noinline
func lenSim(rv reflect.Value) (int, bool) {
	if ForceSwitch == nil || !rv.IsValid() || rv.IsNil() {
		return 0, false
	}
	if c := chanFind(rv.UnsafePointer()); c != nil {
		return len(c.buf), true
	}
	return 0, false
}

// ChanLen is len(ch).
func ChanLen[T any](ch <-chan T) int {
	if n, ok := lenSim(reflect.ValueOf(ch)); ok {
		return n
	}
	return len(ch)
}

// --- sync.Cond ----------------------------------------------------------------
//
// c.Wait() must not block the only running task: the waiter is queued in a side
// table, releases c.L, hands the baton over until Signal/Broadcast marks it, and
// takes c.L again (spinning on TryLock like LockVia).

type condWaiter struct{ woken bool }

type condEntry struct {
	c *sync.Cond
	q []*condWaiter
}

var condTab []*condEntry

//go:noinline
func ResetCondTable() {
	keep := condTab[:0]
	for _, e := range condTab {
		if len(e.q) > 0 {
			keep = append(keep, e)
		}
	}
	for i := len(keep); i < len(condTab); i++ {
		condTab[i] = nil
	}
	condTab = keep
}

func condFind(c *sync.Cond) *condEntry {
	for _, e := range condTab {
		if e.c == c {
			return e
		}
	}
	e := &condEntry{c: c}
	condTab = append(condTab, e)
	return e
}

//go:noinline
func CondWait(c *sync.Cond) {
	if ForceSwitch == nil {
		c.Wait()
		return
	}
	e := condFind(c)
	w := &condWaiter{}
	e.q = append(e.q, w)
	c.L.Unlock()
	defer func() {
		if !w.woken {
			// unwound while waiting: nobody waits any more
			for i, x := range e.q {
				if x == w {
					e.q = append(e.q[:i:i], e.q[i+1:]...)
					break
				}
			}
		}
		// (also when the run is stopped while waiting: Wait returns holding L)
		if tl, ok := c.L.(interface{ TryLock() bool }); ok {
			for !tl.TryLock() {
				if ForceSwitch == nil {
					c.L.Lock()
					return
				}
				switchNow()
			}
			return
		}
		c.L.Lock()
	}()
	for !w.woken {
		switchNow()
	}
}

//go:noinline
func CondSignal(c *sync.Cond) {
	if ForceSwitch != nil {
		e := condFind(c)
		if len(e.q) > 0 {
			e.q[0].woken = true
			e.q = e.q[1:]
		}
	}
	c.Signal()
}

//go:noinline
func CondBroadcast(c *sync.Cond) {
	if ForceSwitch != nil {
		e := condFind(c)
		for _, w := range e.q {
			w.woken = true
		}
		e.q = e.q[:0]
	}
	c.Broadcast()
}

// Sleep is time.Sleep: under the simulator "some time passes" means that the
// others run (a polling loop `for !ready { time.Sleep(ms) }` must not hold the
// baton while it sleeps).
//
//go:noinline
func Sleep(d time.Duration) {
	if ForceSwitch == nil {
		time.Sleep(d)
		return
	}
	switchNow()
}

// Gosched is runtime.Gosched.
//
//go:noinline
func Gosched() {
	if ForceSwitch == nil {
		runtime.Gosched()
		return
	}
	switchNow()
}

// DebugChans describes the channel table (diagnostics of the harness).
func DebugChans() string {
	s := fmt.Sprintf("%d channels:", len(chanTab))
	for _, c := range chanTab {
		s += fmt.Sprintf(" [%p cap=%d buf=%d recvq=%d sendq=%d perm=%v closed=%v]", c.key, c.capa, len(c.buf), len(c.recvq), len(c.sendq), c.perm, c.closed)
	}
	return s
}

// SetFinalizer is runtime.SetFinalizer. A finalizer runs on a goroutine of the
// runtime, at a moment the collector chooses: neither can be owned. Under the
// simulator finalizers are not registered at all - "there is no guarantee that
// finalizers will run" (package runtime), so a program whose finalizers never
// run is one of its legal executions. The free-running race lane keeps them.
var FinalizersDropped int64

//go:noinline
func SetFinalizer(obj interface{}, finalizer interface{}) {
	if ForceSwitch == nil && !PreMain {
		runtime.SetFinalizer(obj, finalizer)
		return
	}
	FinalizersDropped++
}
