// Package xsimrt is the tiny runtime that the instrumenter (/verif/sim/instrument)
// links into a scratch copy of openacid/slim. With every variable below left nil
// (the race lane, or any ordinary use) each function degrades to the original
// behaviour: Yield is a nil check, MapKeys iterates in canonical order, LockVia
// blocks on the real lock, OnceDo is sync.Once.Do.
package xsimrt

import (
	"fmt"
	"sort"
	"sync"
)

// Hook is called before every instrumented statement. Set once by the
// simulator before any task goroutine starts.
var Hook func(site int)

// Yield marks a statement boundary of the code under test. It is small enough
// to be inlined into its (possibly race-instrumented) callers, so it must not
// touch shared mutable state of its own.
func Yield(site int) {
	if h := Hook; h != nil {
		h(site)
	}
}

// Perm decides the visiting order of a map range over n keys (keys already
// canonically sorted). nil = identity.
var Perm func(n int) []int

// MapRanges counts how often a seamed map range was entered with n >= 2
// (only maintained when Perm is set; the simulator is single-running-task).
var MapRanges int

type ordered interface {
	~int | ~int8 | ~int16 | ~int32 | ~int64 | ~uint | ~uint8 | ~uint16 | ~uint32 | ~uint64 | ~uintptr | ~float32 | ~float64 | ~string
}

// MapKeys returns the keys of m in the order chosen by Perm. Every order the Go
// spec allows for a map range is a permutation of the key set, so a program
// using MapKeys exhibits a subset of the spec-allowed behaviours.
func MapKeys[M ~map[K]V, K ordered, V any](m M) []K {
	ks := make([]K, 0, len(m))
	for k := range m {
		ks = append(ks, k)
	}
	sort.Slice(ks, func(i, j int) bool { return ks[i] < ks[j] })
	if p := Perm; p != nil && len(ks) >= 2 {
		MapRanges++
		perm := p(len(ks))
		out := make([]K, len(ks))
		for i, j := range perm {
			out[i] = ks[j]
		}
		return out
	}
	return ks
}

// MapKeysAny is MapKeys for key types without a natural order (structs, arrays,
// pointers, interfaces): the canonical order is the order of the keys' %#v
// renderings (ties and pointer-valued keys make it merely deterministic per
// process, which is still one of the permutations the Go spec allows).
func MapKeysAny[M ~map[K]V, K comparable, V any](m M) []K {
	type kr struct {
		k K
		r string
	}
	ks := make([]kr, 0, len(m))
	for k := range m {
		ks = append(ks, kr{k, fmt.Sprintf("%#v", k)})
	}
	sort.SliceStable(ks, func(i, j int) bool { return ks[i].r < ks[j].r })
	out := make([]K, len(ks))
	for i := range ks {
		out[i] = ks[i].k
	}
	if p := Perm; p != nil && len(out) >= 2 {
		MapRanges++
		perm := p(len(out))
		res := make([]K, len(out))
		for i, j := range perm {
			res[i] = out[j]
		}
		return res
	}
	return out
}

// ForceSwitch parks the calling task and lets another one run. Set by the
// simulator only.
var ForceSwitch func()

// LockVia replaces x.Lock() / x.RLock(): under the simulator a task must never
// block on a real mutex while holding the baton (the holder may be parked), so
// it spins on TryLock and hands the baton over between attempts.
func LockVia(try func() bool, lock func()) {
	fs := ForceSwitch
	if fs == nil {
		lock()
		return
	}
	for !try() {
		fs()
	}
}

type onceState struct {
	running, done bool
}

// onceTab is a plain slice, not a map: Go's map operations are race-annotated
// inside the runtime even when this package is compiled without race
// instrumentation, and the table is shared by all tasks.
type onceEntry struct {
	o *sync.Once
	s *onceState
}

var onceTab []onceEntry

// ResetOnceTable forgets all sync.Once instances seen so far (between runs).
func ResetOnceTable() { onceTab = onceTab[:0] }

// OnceDo replaces o.Do(f). Under the simulator exactly one running task touches
// onceTab at a time (tasks are run one at a time), so no lock is needed.
func OnceDo(o *sync.Once, f func()) {
	fs := ForceSwitch
	if fs == nil {
		o.Do(f)
		return
	}
	var s *onceState
	for i := range onceTab {
		if onceTab[i].o == o {
			s = onceTab[i].s
			break
		}
	}
	if s == nil {
		s = &onceState{}
		onceTab = append(onceTab, onceEntry{o, s})
	}
	for {
		if s.done {
			// go through the real Once as well: its atomic load is the acquire
			// that orders the initialiser's writes before this caller's reads
			// (the race detector must see that edge)
			o.Do(func() {})
			return
		}
		if !s.running {
			s.running = true
			defer func() {
				// like sync.Once: a panicking f still counts as done
				s.done = true
			}()
			o.Do(f)
			return
		}
		fs()
	}
}
