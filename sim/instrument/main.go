// instrument rewrites a scratch copy of openacid/slim in place:
//
//   - a xsimrt__.Yield(<site>) call before every statement of every block /
//     case / comm clause body (statement-level preemption points);
//   - `for k, v := range m` over maps with ordered basic keys goes through
//     xsimrt__.MapKeys (map-iteration-order seam);
//   - (*sync.Mutex).Lock, (*sync.RWMutex).Lock/RLock and (*sync.Once).Do go
//     through xsimrt__.LockVia / OnceDo so that a task never blocks on a real
//     lock while holding the simulator's baton.
//
// Edits are textual insertions at AST offsets on the same line, so file:line
// of every original token is preserved. The set of packages is the import
// closure, inside the module, of the root patterns given on the command line.
//
// usage: instrument <module-root> <runtime-import-path> <pattern>...
// writes <module-root>/xsimrt/sites.txt and prints a one-line JSON summary.
package main

import (
	"encoding/json"
	"fmt"
	"go/ast"
	"go/token"
	"go/types"
	"os"
	"path/filepath"
	"sort"
	"strings"

	"golang.org/x/tools/go/packages"
)

const rtName = "xsimrt__"

var (
	rtPath string

	siteN int
	sites []string

	summary = struct {
		Packages        []string `json:"packages"`
		Files           int      `json:"files"`
		Sites           int      `json:"sites"`
		MapSeamed       int      `json:"map_ranges_seamed"`
		MapUnseamed     int      `json:"map_ranges_unseamed"`
		MapUnseamedAt   []string `json:"map_ranges_unseamed_at,omitempty"`
		LocksRewritten  int      `json:"locks_rewritten"`
		LocksSkipped    int      `json:"locks_skipped"`
		OnceRewritten   int      `json:"once_rewritten"`
		SyncSites       int      `json:"sync_adjacent_sites"`
		GoStmts         int      `json:"go_statements"`
		GoRewritten     int      `json:"go_statements_rewritten"`
		WGRewritten     int      `json:"waitgroup_calls_rewritten"`
		CondRewritten   int      `json:"cond_calls_rewritten"`
		ChanRewritten   int      `json:"channel_ops_rewritten"`
		SelectRewritten int      `json:"selects_rewritten"`
		Unsupported     []string `json:"unsupported_constructs,omitempty"`
		ChanOps         int      `json:"channel_ops"`
		SyncOtherUses   []string `json:"sync_other_uses,omitempty"`
		SourceSHA256Cmd string   `json:"-"`
	}{}
)

type edit struct {
	off, end int // replace [off,end); end==off => insertion
	text     string
	seq      int
}

func die(code int, f string, a ...interface{}) {
	fmt.Fprintf(os.Stderr, "instrument: "+f+"\n", a...)
	os.Exit(code)
}

func main() {
	if len(os.Args) < 4 {
		die(2, "usage: instrument <root> <rt-import-path> <pattern>...")
	}
	root := os.Args[1]
	rtPath = os.Args[2]
	pats := os.Args[3:]

	cfg := &packages.Config{
		Mode: packages.NeedName | packages.NeedFiles | packages.NeedCompiledGoFiles |
			packages.NeedSyntax | packages.NeedTypes | packages.NeedTypesInfo |
			packages.NeedImports | packages.NeedDeps | packages.NeedModule,
		Dir:   root,
		Tests: false,
	}
	roots, err := packages.Load(cfg, pats...)
	if err != nil {
		die(2, "load: %v", err)
	}
	if len(roots) == 0 {
		die(2, "no packages matched %v", pats)
	}
	modPath := ""
	for _, p := range roots {
		if p.Module != nil {
			modPath = p.Module.Path
			break
		}
	}
	if modPath == "" {
		die(2, "cannot determine module path")
	}

	// import closure inside the module
	seen := map[string]*packages.Package{}
	var walk func(p *packages.Package)
	walk = func(p *packages.Package) {
		if seen[p.PkgPath] != nil {
			return
		}
		if p.Module == nil {
			return
		}
		// the main module, plus modules replaced by a directory inside the
		// scratch tree (the writable copy of openacid/low): yields there let the
		// step caps reach loops in the dependency that a corrupted or
		// half-loaded trie would otherwise spin in forever.
		inScope := p.Module.Main && p.Module.Path == modPath
		if r := p.Module.Replace; r != nil && r.Dir != "" {
			if rel, err := filepath.Rel(root, r.Dir); err == nil && !strings.HasPrefix(rel, "..") {
				inScope = true
			}
		}
		if !inScope {
			return
		}
		if p.PkgPath == rtPath {
			return
		}
		seen[p.PkgPath] = p
		for _, ip := range p.Imports {
			walk(ip)
		}
	}
	for _, p := range roots {
		walk(p)
	}
	var paths []string
	for pp := range seen {
		paths = append(paths, pp)
	}
	sort.Strings(paths)
	summary.Packages = paths

	for _, pp := range paths {
		p := seen[pp]
		if len(p.Errors) > 0 {
			die(2, "package %s has errors: %v", p.PkgPath, p.Errors)
		}
		if len(p.Syntax) != len(p.CompiledGoFiles) {
			die(2, "package %s: %d syntax trees for %d files", p.PkgPath, len(p.Syntax), len(p.CompiledGoFiles))
		}
		for i, f := range p.Syntax {
			fn := p.CompiledGoFiles[i]
			if strings.HasSuffix(fn, "_test.go") || strings.HasSuffix(fn, ".pb.go") {
				continue
			}
			src, err := os.ReadFile(fn)
			if err != nil {
				die(2, "%v", err)
			}
			edits := instrumentFile(p, f, src, root)
			if len(edits) == 0 {
				continue
			}
			summary.Files++
			edits = append(edits, edit{off: p.Fset.Position(f.Name.End()).Offset, text: fmt.Sprintf("; import %s %q", rtName, rtPath)})
			for i := range edits {
				if edits[i].end == 0 {
					edits[i].end = edits[i].off
				}
				edits[i].seq = i
			}
			sort.SliceStable(edits, func(a, b int) bool {
				if edits[a].off != edits[b].off {
					return edits[a].off < edits[b].off
				}
				// pure insertions go before a replacement starting at the same offset
				ra, rb := edits[a].end > edits[a].off, edits[b].end > edits[b].off
				if ra != rb {
					return !ra
				}
				return edits[a].seq < edits[b].seq
			})
			var out []byte
			cur := 0
			for _, e := range edits {
				if e.off < cur {
					die(2, "overlapping edits in %s at offset %d", fn, e.off)
				}
				out = append(out, src[cur:e.off]...)
				out = append(out, e.text...)
				cur = e.end
			}
			out = append(out, src[cur:]...)
			if err := os.WriteFile(fn, out, 0644); err != nil {
				die(2, "%v", err)
			}
		}
	}
	summary.Sites = siteN
	if err := os.MkdirAll(filepath.Join(root, "xsimrt"), 0755); err != nil {
		die(2, "%v", err)
	}
	if err := os.WriteFile(filepath.Join(root, "xsimrt", "sites.txt"), []byte(strings.Join(sites, "\n")+"\n"), 0644); err != nil {
		die(2, "%v", err)
	}
	js, _ := json.Marshal(summary)
	fmt.Println(string(js))
}

func instrumentFile(p *packages.Package, f *ast.File, src []byte, root string) []edit {
	var edits []edit
	off := func(pos token.Pos) int { return p.Fset.Position(pos).Offset }
	rel := func(pos token.Pos) string {
		position := p.Fset.Position(pos)
		r, err := filepath.Rel(root, position.Filename)
		if err != nil {
			r = position.Filename
		}
		return fmt.Sprintf("%s:%d", r, position.Line)
	}
	// touchesSync: the statement itself (not statements nested in its blocks or
	// function literals) calls into sync or sync/atomic.
	touchesSync := func(st ast.Stmt) bool {
		found := false
		ast.Inspect(st, func(n ast.Node) bool {
			switch x := n.(type) {
			case *ast.BlockStmt, *ast.FuncLit:
				return false
			case *ast.CallExpr:
				var obj types.Object
				switch f := x.Fun.(type) {
				case *ast.SelectorExpr:
					if s := p.TypesInfo.Selections[f]; s != nil {
						obj = s.Obj()
					} else {
						obj = p.TypesInfo.Uses[f.Sel]
					}
				case *ast.Ident:
					obj = p.TypesInfo.Uses[f]
				}
				if obj != nil && obj.Pkg() != nil && (obj.Pkg().Path() == "sync" || obj.Pkg().Path() == "sync/atomic") {
					found = true
				}
			}
			return !found
		})
		return found
	}
	addYields := func(list []ast.Stmt) {
		prevSync := false
		for _, s := range list {
			switch s.(type) {
			case *ast.CaseClause, *ast.CommClause:
				continue
			}
			siteN++
			flag := "-"
			ts := touchesSync(s)
			if ts {
				flag = "S" // the statement synchronises
				summary.SyncSites++
			} else if prevSync {
				flag = "A" // first statement after a synchronising one: the gap between two critical sections
				summary.SyncSites++
			}
			prevSync = ts
			sites = append(sites, fmt.Sprintf("%d %s %s", siteN, rel(s.Pos()), flag))
			edits = append(edits, edit{off: off(s.Pos()), text: fmt.Sprintf("%s.Yield(%d); ", rtName, siteN)})
		}
	}
	// ranges consumed by a map-seam rewrite: a call rewrite inside the replaced
	// header text would overlap, so it is skipped there.
	type span struct{ a, b int }
	var consumed []span
	inConsumed := func(a, b int) bool {
		for _, s := range consumed {
			if a < s.b && b > s.a {
				return true
			}
		}
		return false
	}

	// first pass: map ranges (they replace a span)
	ast.Inspect(f, func(n ast.Node) bool {
		if r, ok := n.(*ast.RangeStmt); ok {
			tv, ok := p.TypesInfo.Types[r.X]
			if !ok {
				return true
			}
			if _, isChan := tv.Type.Underlying().(*types.Chan); isChan {
				es, sp := rewriteChanRange(p, r, src)
				edits = append(edits, es...)
				consumed = append(consumed, span{sp[0], sp[1]})
				summary.ChanOps++
				summary.ChanRewritten++
				return true
			}
			mt, ok := tv.Type.Underlying().(*types.Map)
			if !ok {
				return true
			}
			es, ok := rewriteMapRange(p, r, mt, src)
			if ok {
				summary.MapSeamed++
				consumed = append(consumed, span{off(r.For), off(r.Body.Lbrace) + 1})
				edits = append(edits, es...)
			} else {
				summary.MapUnseamed++
				summary.MapUnseamedAt = append(summary.MapUnseamedAt, rel(r.Pos()))
			}
		}
		return true
	})

	keepImports := map[string]string{} // local package name -> path: packages whose only use may have been rewritten away
	commOf := map[ast.Node]bool{} // send statements / receive expressions that are the communication of a select case
	ast.Inspect(f, func(n ast.Node) bool {
		switch x := n.(type) {
		case *ast.BlockStmt:
			addYields(x.List)
		case *ast.CaseClause:
			addYields(x.Body)
		case *ast.CommClause:
			addYields(x.Body)
		case *ast.GoStmt:
			summary.GoStmts++
			ges, spans := rewriteGo(p, x, src)
			edits = append(edits, ges...)
			for _, sp := range spans {
				consumed = append(consumed, span{sp[0], sp[1]})
			}
			summary.GoRewritten++
		case *ast.SelectStmt:
			es, sps := rewriteSelect(p, x, src, commOf, func(what string, pos token.Pos) {
				summary.Unsupported = append(summary.Unsupported, what+"@"+rel(pos))
			})
			edits = append(edits, es...)
			for _, sp := range sps {
				consumed = append(consumed, span{sp[0], sp[1]})
			}
			summary.SelectRewritten++
		case *ast.SendStmt:
			summary.ChanOps++
			if commOf[x] {
				return true
			}
			if inConsumed(off(x.Pos()), off(x.End())) {
				summary.Unsupported = append(summary.Unsupported, "send-inside-rewritten-span@"+rel(x.Pos()))
				return true
			}
			edits = append(edits, edit{off: off(x.Pos()), text: rtName + ".Send("},
				edit{off: off(x.Arrow), end: off(x.Arrow) + 2, text: ", "},
				edit{off: off(x.End()), text: ")"})
			summary.ChanRewritten++
		case *ast.UnaryExpr:
			if x.Op == token.ARROW {
				summary.ChanOps++
				if commOf[x] {
					return true
				}
				if inConsumed(off(x.Pos()), off(x.End())) {
					summary.Unsupported = append(summary.Unsupported, "receive-inside-rewritten-span@"+rel(x.Pos()))
					return true
				}
				fn := "Recv"
				if tv, ok := p.TypesInfo.Types[x]; ok {
					if _, isTuple := tv.Type.(*types.Tuple); isTuple {
						fn = "Recv2"
					}
				}
				edits = append(edits, edit{off: off(x.OpPos), end: off(x.OpPos) + 2, text: rtName + "." + fn + "("},
					edit{off: off(x.End()), text: ")"})
				summary.ChanRewritten++
			}
		case *ast.CallExpr:
			if id, ok := ast.Unparen(x.Fun).(*ast.Ident); ok {
				if b, isB := p.TypesInfo.Uses[id].(*types.Builtin); isB && !inConsumed(off(x.Pos()), off(x.End())) {
					isChan := func(e ast.Expr) bool {
						t := p.TypesInfo.TypeOf(e)
						if t == nil {
							return false
						}
						_, ok := t.Underlying().(*types.Chan)
						return ok
					}
					switch b.Name() {
					case "make":
						if isChan(x) {
							edits = append(edits, edit{off: off(x.Pos()), text: rtName + ".MakeChan("}, edit{off: off(x.End()), text: ")"})
							summary.ChanRewritten++
						}
					case "close":
						if len(x.Args) == 1 {
							edits = append(edits, edit{off: off(id.Pos()), end: off(id.End()), text: rtName + ".Close"})
							summary.ChanRewritten++
						}
					case "len":
						if len(x.Args) == 1 && isChan(x.Args[0]) {
							edits = append(edits, edit{off: off(id.Pos()), end: off(id.End()), text: rtName + ".ChanLen"})
							summary.ChanRewritten++
						}
					}
				}
				return true
			}
			sel, ok := x.Fun.(*ast.SelectorExpr)
			if !ok {
				return true
			}
			if pk, isPkg := p.TypesInfo.Uses[identOf(sel.X)].(*types.PkgName); isPkg && pk.Imported().Path() == "time" && (sel.Sel.Name == "AfterFunc" || sel.Sel.Name == "NewTimer" || sel.Sel.Name == "NewTicker" || sel.Sel.Name == "Tick") {
				summary.Unsupported = append(summary.Unsupported, "time."+sel.Sel.Name+"@"+rel(x.Pos()))
			}
			if pk, isPkg := p.TypesInfo.Uses[identOf(sel.X)].(*types.PkgName); isPkg && !inConsumed(off(x.Pos()), off(x.End())) {
				if (pk.Imported().Path() == "time" && sel.Sel.Name == "Sleep") || (pk.Imported().Path() == "runtime" && (sel.Sel.Name == "Gosched" || sel.Sel.Name == "SetFinalizer")) {
					// only the callee is replaced; the package stays imported and
					// used through the blank use appended to the file
					edits = append(edits, edit{off: off(sel.Pos()), end: off(sel.End()), text: rtName + "." + sel.Sel.Name})
					keepImports[pk.Name()] = pk.Imported().Path()
					if sel.Sel.Name == "SetFinalizer" {
						summary.Unsupported = append(summary.Unsupported, "runtime.SetFinalizer(never-run-under-the-simulator)@"+rel(x.Pos()))
					}
				}
			}
			s := p.TypesInfo.Selections[sel]
			if s == nil || s.Kind() != types.MethodVal {
				return true
			}
			fn, ok := s.Obj().(*types.Func)
			if !ok || fn.Pkg() == nil || fn.Pkg().Path() != "sync" {
				return true
			}
			recv := fn.Type().(*types.Signature).Recv()
			rname := ""
			if recv != nil {
				t := recv.Type()
				if pt, ok := t.(*types.Pointer); ok {
					t = pt.Elem()
				}
				if nt, ok := t.(*types.Named); ok {
					rname = nt.Obj().Name()
				}
			}
			simple := isSimple(sel.X)
			a, b := off(x.Pos()), off(x.End())
			xsrc := string(src[off(sel.X.Pos()):off(sel.X.End())])
			switch {
			case (rname == "Mutex" || rname == "RWMutex") && fn.Name() == "Lock":
				if simple && len(x.Args) == 0 && !inConsumed(a, b) {
					edits = append(edits, edit{off: a, end: b, text: fmt.Sprintf("%s.LockVia2(%s, %s.TryLock, %s.Lock, %s.Unlock, false)", rtName, recvPointer(xsrc, p.TypesInfo.TypeOf(sel.X), s), xsrc, xsrc, xsrc)})
					summary.LocksRewritten++
				} else {
					summary.LocksSkipped++
				}
			case rname == "RWMutex" && fn.Name() == "RLock":
				if simple && len(x.Args) == 0 && !inConsumed(a, b) {
					edits = append(edits, edit{off: a, end: b, text: fmt.Sprintf("%s.LockVia2(%s, %s.TryRLock, %s.RLock, %s.RUnlock, true)", rtName, recvPointer(xsrc, p.TypesInfo.TypeOf(sel.X), s), xsrc, xsrc, xsrc)})
					summary.LocksRewritten++
				} else {
					summary.LocksSkipped++
				}
			case rname == "Once" && fn.Name() == "Do":
				if simple && len(x.Args) == 1 && !inConsumed(a, b) {
					// receiver expression -> *sync.Once
					recvExpr := xsrc
					if !isOncePtr(p.TypesInfo.TypeOf(sel.X), s) {
						recvExpr = "&" + onceAddr(xsrc, s)
					} else {
						recvExpr = onceAddr(xsrc, s)
					}
					// only rewrite the "X.Do(" prefix, leave the argument (may contain yields) alone
					edits = append(edits, edit{off: a, end: off(x.Lparen) + 1, text: fmt.Sprintf("%s.OnceDo(%s, ", rtName, recvExpr)})
					summary.OnceRewritten++
				} else {
					summary.LocksSkipped++
				}
			case rname == "WaitGroup" && (fn.Name() == "Add" || fn.Name() == "Done" || fn.Name() == "Wait"):
				if inConsumed(a, b) {
					summary.LocksSkipped++
					break
				}
				ptr := recvPointer(xsrc, p.TypesInfo.TypeOf(sel.X), s)
				// only the "X.M(" prefix is replaced: arguments keep their own edits
				txt := fmt.Sprintf("%s.WG%s(%s", rtName, fn.Name(), ptr)
				if len(x.Args) > 0 {
					txt += ", "
				}
				edits = append(edits, edit{off: a, end: off(x.Lparen) + 1, text: txt})
				summary.WGRewritten++
			case (rname == "Mutex" || rname == "RWMutex") && (fn.Name() == "Unlock" || fn.Name() == "RUnlock"):
				if simple && len(x.Args) == 0 && !inConsumed(a, b) {
					edits = append(edits, edit{off: a, end: b, text: fmt.Sprintf("%s.UnlockVia(%s, %s.%s)", rtName, recvPointer(xsrc, p.TypesInfo.TypeOf(sel.X), s), xsrc, fn.Name())})
				}
			case fn.Name() == "Unlock" || fn.Name() == "RUnlock" || fn.Name() == "TryLock" || fn.Name() == "TryRLock":
			case rname == "Cond" && (fn.Name() == "Wait" || fn.Name() == "Signal" || fn.Name() == "Broadcast"):
				if inConsumed(a, b) || len(x.Args) != 0 {
					summary.Unsupported = append(summary.Unsupported, "sync.Cond."+fn.Name()+"@"+rel(x.Pos()))
					break
				}
				edits = append(edits, edit{off: a, end: b, text: fmt.Sprintf("%s.Cond%s(%s)", rtName, fn.Name(), recvPointer(xsrc, p.TypesInfo.TypeOf(sel.X), s))})
				summary.CondRewritten++
			default:
				summary.SyncOtherUses = append(summary.SyncOtherUses, fmt.Sprintf("%s.%s@%s", rname, fn.Name(), rel(x.Pos())))
			}
		}
		return true
	})
	for name, path := range keepImports {
		fn := "Sleep"
		if path == "runtime" {
			fn = "Gosched"
		}
		edits = append(edits, edit{off: len(src), text: fmt.Sprintf("\nvar _ = %s.%s\n", name, fn)})
	}
	return edits
}

func identOf(e ast.Expr) *ast.Ident {
	id, _ := e.(*ast.Ident)
	return id
}

// rewriteChanRange turns `for v := range ch { body }` into
//
//	for { v, ok := xsimrt__.Recv2(ch); if !ok { break }; { body } }
func rewriteChanRange(p *packages.Package, r *ast.RangeStmt, src []byte) ([]edit, [2]int) {
	off := func(pos token.Pos) int { return p.Fset.Position(pos).Offset }
	xsrc := string(src[off(r.X.Pos()):off(r.X.End())])
	key := "_"
	if r.Key != nil {
		key = string(src[off(r.Key.Pos()):off(r.Key.End())])
	}
	var hdr string
	if r.Key == nil || r.Tok == token.DEFINE {
		hdr = fmt.Sprintf("for { %s, %sok := %s.Recv2(%s); if !%sok { break }; {", key, rtName, rtName, xsrc, rtName)
	} else {
		hdr = fmt.Sprintf("for { var %sok bool; %s, %sok = %s.Recv2(%s); if !%sok { break }; {", rtName, key, rtName, rtName, xsrc, rtName)
	}
	a, b := off(r.For), off(r.Body.Lbrace)+1
	return []edit{{off: a, end: b, text: hdr}, {off: off(r.Body.Rbrace), text: "}"}}, [2]int{a, b}
}

// rewriteSelect turns a select statement into a switch over xsimrt__.Select:
//
//	switch xsimrt__r := xsimrt__.Select(hasDefault, xsimrt__.RecvCase(a), xsimrt__.SendCase(b, x)); xsimrt__r.I {
//	case 0: v, ok := xsimrt__.As(a, xsimrt__r.V), xsimrt__r.OK; ...
//	case 1: ...
//	default: ...
//	}
//
// Only headers are replaced; the clause bodies keep their own edits. break
// inside a clause leaves the switch as it left the select.
func rewriteSelect(p *packages.Package, sel *ast.SelectStmt, src []byte, commOf map[ast.Node]bool, unsupported func(string, token.Pos)) ([]edit, [][2]int) {
	off := func(pos token.Pos) int { return p.Fset.Position(pos).Offset }
	text := func(n ast.Node) string { return string(src[off(n.Pos()):off(n.End())]) }
	var es []edit
	var spans [][2]int
	var cases []string
	hasDefault := false
	idx := 0
	for _, st := range sel.Body.List {
		cc := st.(*ast.CommClause)
		a, b := off(cc.Case), off(cc.Colon)+1
		spans = append(spans, [2]int{a, b})
		if cc.Comm == nil {
			hasDefault = true
			es = append(es, edit{off: a, end: b, text: "default:"})
			continue
		}
		hdr := fmt.Sprintf("case %d:", idx)
		recvOf := func(e ast.Expr) *ast.UnaryExpr {
			u, _ := ast.Unparen(e).(*ast.UnaryExpr)
			return u
		}
		switch c := cc.Comm.(type) {
		case *ast.SendStmt:
			commOf[c] = true
			cases = append(cases, fmt.Sprintf("%s.SendCase(%s, %s)", rtName, text(c.Chan), text(c.Value)))
		case *ast.ExprStmt:
			u := recvOf(c.X)
			commOf[u] = true
			cases = append(cases, fmt.Sprintf("%s.RecvCase(%s)", rtName, text(u.X)))
		case *ast.AssignStmt:
			u := recvOf(c.Rhs[0])
			commOf[u] = true
			ch := text(u.X)
			if !isSimple(u.X) {
				unsupported("select-receive-channel-expression-evaluated-twice", u.Pos())
			}
			cases = append(cases, fmt.Sprintf("%s.RecvCase(%s)", rtName, ch))
			tok := c.Tok.String()
			if len(c.Lhs) == 1 {
				hdr += fmt.Sprintf(" %s %s %s.As(%s, %sr.V);", text(c.Lhs[0]), tok, rtName, ch, rtName)
			} else {
				hdr += fmt.Sprintf(" %s, %s %s %s.As(%s, %sr.V), %sr.OK;", text(c.Lhs[0]), text(c.Lhs[1]), tok, rtName, ch, rtName, rtName)
			}
		}
		es = append(es, edit{off: a, end: b, text: hdr})
		idx++
	}
	if !hasDefault {
		// A select whose clauses all end in terminating statements is itself a
		// terminating statement; a switch is one only with a default clause.
		// Select(false, ...) never reports "default", so this clause never runs.
		es = append(es, edit{off: off(sel.Body.Rbrace), text: "default: panic(\"xsimrt: no case of a blocking select was chosen\")\n"})
	}
	a, b := off(sel.Select), off(sel.Body.Lbrace)+1
	spans = append(spans, [2]int{a, b})
	args := fmt.Sprint(hasDefault)
	if len(cases) > 0 {
		args += ", " + strings.Join(cases, ", ")
	}
	es = append(es, edit{off: a, end: b, text: fmt.Sprintf("switch %sr := %s.Select(%s); %sr.I {", rtName, rtName, args, rtName)})
	return es, spans
}

// recvPointer spells a pointer to the value a promoted or direct method of a
// sync type is called on: the receiver expression followed by the implicit
// embedding path, with & in front unless that is a pointer already.
func recvPointer(xsrc string, t types.Type, s *types.Selection) string {
	expr := "(" + xsrc + ")"
	idx := s.Index()
	for _, i := range idx[:len(idx)-1] {
		if pt, ok := t.Underlying().(*types.Pointer); ok {
			t = pt.Elem()
		}
		st, ok := t.Underlying().(*types.Struct)
		if !ok {
			break
		}
		f := st.Field(i)
		expr += "." + f.Name()
		t = f.Type()
	}
	if _, ok := t.Underlying().(*types.Pointer); ok {
		return expr
	}
	return "&" + expr
}

// rewriteGo turns `go f(a, b)` into
//
//	{ t0 := a; t1 := b; xsimrt__.Go(func() { f(t0, t1) }) }
//
// The function value and the arguments of a go statement are evaluated by the
// parent; hoisting keeps that. Constants, nil, untyped values and anything that
// contains a function literal (its body receives edits of its own) stay where
// they are, which only moves a side-effect-free evaluation.
func rewriteGo(p *packages.Package, g *ast.GoStmt, src []byte) ([]edit, [][2]int) {
	off := func(pos token.Pos) int { return p.Fset.Position(pos).Offset }
	var es []edit
	var hoists []string
	var spans [][2]int
	n := 0
	hasLit := func(e ast.Expr) bool {
		found := false
		ast.Inspect(e, func(n ast.Node) bool {
			if _, ok := n.(*ast.FuncLit); ok {
				found = true
			}
			return !found
		})
		return found
	}
	hoist := func(e ast.Expr) {
		tv, ok := p.TypesInfo.Types[e]
		if !ok || tv.Value != nil || tv.IsNil() || tv.IsType() || tv.IsBuiltin() || hasLit(e) {
			return
		}
		if b, ok := tv.Type.(*types.Basic); ok && b.Info()&types.IsUntyped != 0 {
			return
		}
		if _, ok := tv.Type.(*types.Tuple); ok {
			return
		}
		name := fmt.Sprintf("%sg%d", rtName, n)
		n++
		hoists = append(hoists, fmt.Sprintf("%s := %s; ", name, string(src[off(e.Pos()):off(e.End())])))
		es = append(es, edit{off: off(e.Pos()), end: off(e.End()), text: name})
		spans = append(spans, [2]int{off(e.Pos()), off(e.End())})
	}
	// the function value: hoisted when it is a method value or a variable
	switch f := ast.Unparen(g.Call.Fun).(type) {
	case *ast.FuncLit:
	case *ast.Ident:
		if _, isVar := p.TypesInfo.Uses[f].(*types.Var); isVar {
			hoist(g.Call.Fun)
		}
	case *ast.SelectorExpr:
		if sel := p.TypesInfo.Selections[f]; sel != nil {
			hoist(g.Call.Fun) // method value or func-typed field
		} else if _, isVar := p.TypesInfo.Uses[f.Sel].(*types.Var); isVar {
			hoist(g.Call.Fun)
		}
	default:
		hoist(g.Call.Fun)
	}
	for _, a := range g.Call.Args {
		hoist(a)
	}
	es = append(es, edit{off: off(g.Go), end: off(g.Go) + 2, text: "{ " + strings.Join(hoists, "") + rtName + ".Go(func() { "})
	es = append(es, edit{off: off(g.Call.End()), text: " }) }"})
	return es, spans
}

// isOncePtr reports whether the static type of the receiver expression (after
// following the implicit embedding path) is already a pointer to sync.Once.
// With an embedding path the selected field expression is not spelled in the
// source, so onceAddr spells nothing extra: promoted Do through embedding is
// rare enough that we only support the direct case and the one-level embedded
// case `x.Do` where x embeds sync.Once by value (then &x.Once).
func isOncePtr(t types.Type, s *types.Selection) bool {
	if len(s.Index()) > 1 {
		return false
	}
	_, ok := t.Underlying().(*types.Pointer)
	return ok
}

func onceAddr(xsrc string, s *types.Selection) string {
	if len(s.Index()) > 1 {
		return "(" + xsrc + ").Once"
	}
	return xsrc
}

func isSimple(e ast.Expr) bool {
	switch x := e.(type) {
	case *ast.Ident:
		return true
	case *ast.SelectorExpr:
		return isSimple(x.X)
	case *ast.ParenExpr:
		return isSimple(x.X)
	case *ast.StarExpr:
		return isSimple(x.X)
	case *ast.UnaryExpr:
		return x.Op == token.AND && isSimple(x.X)
	}
	return false
}

func orderedBasic(t types.Type) bool {
	b, ok := t.Underlying().(*types.Basic)
	if !ok {
		return false
	}
	return b.Info()&(types.IsInteger|types.IsFloat|types.IsString) != 0
}

func rewriteMapRange(p *packages.Package, r *ast.RangeStmt, mt *types.Map, src []byte) ([]edit, bool) {
	off := func(pos token.Pos) int { return p.Fset.Position(pos).Offset }
	if !isSimple(r.X) {
		return nil, false
	}
	helper := "MapKeys"
	if !orderedBasic(mt.Key()) {
		if !types.Comparable(mt.Key()) {
			return nil, false
		}
		helper = "MapKeysAny"
	}
	if r.Key != nil && r.Tok != token.DEFINE {
		return nil, false
	}
	xsrc := string(src[off(r.X.Pos()):off(r.X.End())])
	key := "k__seam"
	if r.Key != nil {
		id, ok := r.Key.(*ast.Ident)
		if !ok {
			return nil, false
		}
		if id.Name != "_" {
			key = id.Name
		}
	}
	val := "_"
	if r.Value != nil {
		id, ok := r.Value.(*ast.Ident)
		if !ok {
			return nil, false
		}
		val = id.Name
	}
	hdr := fmt.Sprintf("for _, %s := range %s.%s(%s) {", key, rtName, helper, xsrc)
	pre := fmt.Sprintf(" %s, ok__seam := %s[%s]; if !ok__seam { continue }; _ = %s;", val, xsrc, key, key)
	return []edit{
		{off: off(r.For), end: off(r.Body.Lbrace) + 1, text: hdr + pre + " "},
	}, true
}
