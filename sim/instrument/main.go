// instrument rewrites a scratch copy of openacid/slim in place:
//
//   - a xsimrt__.Yield(<site>) call before every statement of every block /
//     case / comm clause body (statement-level preemption points);
//   - `for k, v := range m` over maps with ordered basic keys goes through
//     xsimrt__.MapKeys (map-iteration-order seam);
//   - (*sync.Mutex).Lock, (*sync.RWMutex).Lock/RLock and (*sync.Once).Do go
//     through xsimrt__.LockVia / OnceDo so that a task never blocks on a real
//     lock while holding the simulator's baton.
//
// Edits are textual insertions at AST offsets on the same line, so file:line
// of every original token is preserved. The set of packages is the import
// closure, inside the module, of the root patterns given on the command line.
//
// usage: instrument <module-root> <runtime-import-path> <pattern>...
// writes <module-root>/xsimrt/sites.txt and prints a one-line JSON summary.
package main

import (
	"encoding/json"
	"fmt"
	"go/ast"
	"go/token"
	"go/types"
	"os"
	"path/filepath"
	"sort"
	"strings"

	"golang.org/x/tools/go/packages"
)

const rtName = "xsimrt__"

var (
	rtPath string

	siteN int
	sites []string

	summary = struct {
		Packages        []string `json:"packages"`
		Files           int      `json:"files"`
		Sites           int      `json:"sites"`
		MapSeamed       int      `json:"map_ranges_seamed"`
		MapUnseamed     int      `json:"map_ranges_unseamed"`
		MapUnseamedAt   []string `json:"map_ranges_unseamed_at,omitempty"`
		LocksRewritten  int      `json:"locks_rewritten"`
		LocksSkipped    int      `json:"locks_skipped"`
		OnceRewritten   int      `json:"once_rewritten"`
		SyncSites       int      `json:"sync_adjacent_sites"`
		GoStmts         int      `json:"go_statements"`
		ChanOps         int      `json:"channel_ops"`
		SyncOtherUses   []string `json:"sync_other_uses,omitempty"`
		SourceSHA256Cmd string   `json:"-"`
	}{}
)

type edit struct {
	off, end int // replace [off,end); end==off => insertion
	text     string
	seq      int
}

func die(code int, f string, a ...interface{}) {
	fmt.Fprintf(os.Stderr, "instrument: "+f+"\n", a...)
	os.Exit(code)
}

func main() {
	if len(os.Args) < 4 {
		die(2, "usage: instrument <root> <rt-import-path> <pattern>...")
	}
	root := os.Args[1]
	rtPath = os.Args[2]
	pats := os.Args[3:]

	cfg := &packages.Config{
		Mode: packages.NeedName | packages.NeedFiles | packages.NeedCompiledGoFiles |
			packages.NeedSyntax | packages.NeedTypes | packages.NeedTypesInfo |
			packages.NeedImports | packages.NeedDeps | packages.NeedModule,
		Dir:   root,
		Tests: false,
	}
	roots, err := packages.Load(cfg, pats...)
	if err != nil {
		die(2, "load: %v", err)
	}
	if len(roots) == 0 {
		die(2, "no packages matched %v", pats)
	}
	modPath := ""
	for _, p := range roots {
		if p.Module != nil {
			modPath = p.Module.Path
			break
		}
	}
	if modPath == "" {
		die(2, "cannot determine module path")
	}

	// import closure inside the module
	seen := map[string]*packages.Package{}
	var walk func(p *packages.Package)
	walk = func(p *packages.Package) {
		if seen[p.PkgPath] != nil {
			return
		}
		if p.Module == nil {
			return
		}
		// the main module, plus modules replaced by a directory inside the
		// scratch tree (the writable copy of openacid/low): yields there let the
		// step caps reach loops in the dependency that a corrupted or
		// half-loaded trie would otherwise spin in forever.
		inScope := p.Module.Main && p.Module.Path == modPath
		if r := p.Module.Replace; r != nil && r.Dir != "" {
			if rel, err := filepath.Rel(root, r.Dir); err == nil && !strings.HasPrefix(rel, "..") {
				inScope = true
			}
		}
		if !inScope {
			return
		}
		if p.PkgPath == rtPath {
			return
		}
		seen[p.PkgPath] = p
		for _, ip := range p.Imports {
			walk(ip)
		}
	}
	for _, p := range roots {
		walk(p)
	}
	var paths []string
	for pp := range seen {
		paths = append(paths, pp)
	}
	sort.Strings(paths)
	summary.Packages = paths

	for _, pp := range paths {
		p := seen[pp]
		if len(p.Errors) > 0 {
			die(2, "package %s has errors: %v", p.PkgPath, p.Errors)
		}
		if len(p.Syntax) != len(p.CompiledGoFiles) {
			die(2, "package %s: %d syntax trees for %d files", p.PkgPath, len(p.Syntax), len(p.CompiledGoFiles))
		}
		for i, f := range p.Syntax {
			fn := p.CompiledGoFiles[i]
			if strings.HasSuffix(fn, "_test.go") || strings.HasSuffix(fn, ".pb.go") {
				continue
			}
			src, err := os.ReadFile(fn)
			if err != nil {
				die(2, "%v", err)
			}
			edits := instrumentFile(p, f, src, root)
			if len(edits) == 0 {
				continue
			}
			summary.Files++
			edits = append(edits, edit{off: p.Fset.Position(f.Name.End()).Offset, text: fmt.Sprintf("; import %s %q", rtName, rtPath)})
			for i := range edits {
				if edits[i].end == 0 {
					edits[i].end = edits[i].off
				}
				edits[i].seq = i
			}
			sort.SliceStable(edits, func(a, b int) bool {
				if edits[a].off != edits[b].off {
					return edits[a].off < edits[b].off
				}
				// pure insertions go before a replacement starting at the same offset
				ra, rb := edits[a].end > edits[a].off, edits[b].end > edits[b].off
				if ra != rb {
					return !ra
				}
				return edits[a].seq < edits[b].seq
			})
			var out []byte
			cur := 0
			for _, e := range edits {
				if e.off < cur {
					die(2, "overlapping edits in %s at offset %d", fn, e.off)
				}
				out = append(out, src[cur:e.off]...)
				out = append(out, e.text...)
				cur = e.end
			}
			out = append(out, src[cur:]...)
			if err := os.WriteFile(fn, out, 0644); err != nil {
				die(2, "%v", err)
			}
		}
	}
	summary.Sites = siteN
	if err := os.MkdirAll(filepath.Join(root, "xsimrt"), 0755); err != nil {
		die(2, "%v", err)
	}
	if err := os.WriteFile(filepath.Join(root, "xsimrt", "sites.txt"), []byte(strings.Join(sites, "\n")+"\n"), 0644); err != nil {
		die(2, "%v", err)
	}
	js, _ := json.Marshal(summary)
	fmt.Println(string(js))
}

func instrumentFile(p *packages.Package, f *ast.File, src []byte, root string) []edit {
	var edits []edit
	off := func(pos token.Pos) int { return p.Fset.Position(pos).Offset }
	rel := func(pos token.Pos) string {
		position := p.Fset.Position(pos)
		r, err := filepath.Rel(root, position.Filename)
		if err != nil {
			r = position.Filename
		}
		return fmt.Sprintf("%s:%d", r, position.Line)
	}
	// touchesSync: the statement itself (not statements nested in its blocks or
	// function literals) calls into sync or sync/atomic.
	touchesSync := func(st ast.Stmt) bool {
		found := false
		ast.Inspect(st, func(n ast.Node) bool {
			switch x := n.(type) {
			case *ast.BlockStmt, *ast.FuncLit:
				return false
			case *ast.CallExpr:
				var obj types.Object
				switch f := x.Fun.(type) {
				case *ast.SelectorExpr:
					if s := p.TypesInfo.Selections[f]; s != nil {
						obj = s.Obj()
					} else {
						obj = p.TypesInfo.Uses[f.Sel]
					}
				case *ast.Ident:
					obj = p.TypesInfo.Uses[f]
				}
				if obj != nil && obj.Pkg() != nil && (obj.Pkg().Path() == "sync" || obj.Pkg().Path() == "sync/atomic") {
					found = true
				}
			}
			return !found
		})
		return found
	}
	addYields := func(list []ast.Stmt) {
		prevSync := false
		for _, s := range list {
			switch s.(type) {
			case *ast.CaseClause, *ast.CommClause:
				continue
			}
			siteN++
			flag := "-"
			ts := touchesSync(s)
			if ts {
				flag = "S" // the statement synchronises
				summary.SyncSites++
			} else if prevSync {
				flag = "A" // first statement after a synchronising one: the gap between two critical sections
				summary.SyncSites++
			}
			prevSync = ts
			sites = append(sites, fmt.Sprintf("%d %s %s", siteN, rel(s.Pos()), flag))
			edits = append(edits, edit{off: off(s.Pos()), text: fmt.Sprintf("%s.Yield(%d); ", rtName, siteN)})
		}
	}
	// ranges consumed by a map-seam rewrite: a call rewrite inside the replaced
	// header text would overlap, so it is skipped there.
	type span struct{ a, b int }
	var consumed []span
	inConsumed := func(a, b int) bool {
		for _, s := range consumed {
			if a < s.b && b > s.a {
				return true
			}
		}
		return false
	}

	// first pass: map ranges (they replace a span)
	ast.Inspect(f, func(n ast.Node) bool {
		if r, ok := n.(*ast.RangeStmt); ok {
			tv, ok := p.TypesInfo.Types[r.X]
			if !ok {
				return true
			}
			mt, ok := tv.Type.Underlying().(*types.Map)
			if !ok {
				return true
			}
			es, ok := rewriteMapRange(p, r, mt, src)
			if ok {
				summary.MapSeamed++
				consumed = append(consumed, span{off(r.For), off(r.Body.Lbrace) + 1})
				edits = append(edits, es...)
			} else {
				summary.MapUnseamed++
				summary.MapUnseamedAt = append(summary.MapUnseamedAt, rel(r.Pos()))
			}
		}
		return true
	})

	ast.Inspect(f, func(n ast.Node) bool {
		switch x := n.(type) {
		case *ast.BlockStmt:
			addYields(x.List)
		case *ast.CaseClause:
			addYields(x.Body)
		case *ast.CommClause:
			addYields(x.Body)
		case *ast.GoStmt:
			summary.GoStmts++
		case *ast.SendStmt:
			summary.ChanOps++
		case *ast.UnaryExpr:
			if x.Op == token.ARROW {
				summary.ChanOps++
			}
		case *ast.CallExpr:
			sel, ok := x.Fun.(*ast.SelectorExpr)
			if !ok {
				return true
			}
			s := p.TypesInfo.Selections[sel]
			if s == nil || s.Kind() != types.MethodVal {
				return true
			}
			fn, ok := s.Obj().(*types.Func)
			if !ok || fn.Pkg() == nil || fn.Pkg().Path() != "sync" {
				return true
			}
			recv := fn.Type().(*types.Signature).Recv()
			rname := ""
			if recv != nil {
				t := recv.Type()
				if pt, ok := t.(*types.Pointer); ok {
					t = pt.Elem()
				}
				if nt, ok := t.(*types.Named); ok {
					rname = nt.Obj().Name()
				}
			}
			simple := isSimple(sel.X)
			a, b := off(x.Pos()), off(x.End())
			xsrc := string(src[off(sel.X.Pos()):off(sel.X.End())])
			switch {
			case (rname == "Mutex" || rname == "RWMutex") && fn.Name() == "Lock":
				if simple && len(x.Args) == 0 && !inConsumed(a, b) {
					edits = append(edits, edit{off: a, end: b, text: fmt.Sprintf("%s.LockVia(%s.TryLock, %s.Lock)", rtName, xsrc, xsrc)})
					summary.LocksRewritten++
				} else {
					summary.LocksSkipped++
				}
			case rname == "RWMutex" && fn.Name() == "RLock":
				if simple && len(x.Args) == 0 && !inConsumed(a, b) {
					edits = append(edits, edit{off: a, end: b, text: fmt.Sprintf("%s.LockVia(%s.TryRLock, %s.RLock)", rtName, xsrc, xsrc)})
					summary.LocksRewritten++
				} else {
					summary.LocksSkipped++
				}
			case rname == "Once" && fn.Name() == "Do":
				if simple && len(x.Args) == 1 && !inConsumed(a, b) {
					// receiver expression -> *sync.Once
					recvExpr := xsrc
					if !isOncePtr(p.TypesInfo.TypeOf(sel.X), s) {
						recvExpr = "&" + onceAddr(xsrc, s)
					} else {
						recvExpr = onceAddr(xsrc, s)
					}
					// only rewrite the "X.Do(" prefix, leave the argument (may contain yields) alone
					edits = append(edits, edit{off: a, end: off(x.Lparen) + 1, text: fmt.Sprintf("%s.OnceDo(%s, ", rtName, recvExpr)})
					summary.OnceRewritten++
				} else {
					summary.LocksSkipped++
				}
			case fn.Name() == "Unlock" || fn.Name() == "RUnlock" || fn.Name() == "TryLock" || fn.Name() == "TryRLock":
			default:
				summary.SyncOtherUses = append(summary.SyncOtherUses, fmt.Sprintf("%s.%s@%s", rname, fn.Name(), rel(x.Pos())))
			}
		}
		return true
	})
	return edits
}

// isOncePtr reports whether the static type of the receiver expression (after
// following the implicit embedding path) is already a pointer to sync.Once.
// With an embedding path the selected field expression is not spelled in the
// source, so onceAddr spells nothing extra: promoted Do through embedding is
// rare enough that we only support the direct case and the one-level embedded
// case `x.Do` where x embeds sync.Once by value (then &x.Once).
func isOncePtr(t types.Type, s *types.Selection) bool {
	if len(s.Index()) > 1 {
		return false
	}
	_, ok := t.Underlying().(*types.Pointer)
	return ok
}

func onceAddr(xsrc string, s *types.Selection) string {
	if len(s.Index()) > 1 {
		return "(" + xsrc + ").Once"
	}
	return xsrc
}

func isSimple(e ast.Expr) bool {
	switch x := e.(type) {
	case *ast.Ident:
		return true
	case *ast.SelectorExpr:
		return isSimple(x.X)
	case *ast.ParenExpr:
		return isSimple(x.X)
	case *ast.StarExpr:
		return isSimple(x.X)
	case *ast.UnaryExpr:
		return x.Op == token.AND && isSimple(x.X)
	}
	return false
}

func orderedBasic(t types.Type) bool {
	b, ok := t.Underlying().(*types.Basic)
	if !ok {
		return false
	}
	return b.Info()&(types.IsInteger|types.IsFloat|types.IsString) != 0
}

func rewriteMapRange(p *packages.Package, r *ast.RangeStmt, mt *types.Map, src []byte) ([]edit, bool) {
	off := func(pos token.Pos) int { return p.Fset.Position(pos).Offset }
	if !isSimple(r.X) {
		return nil, false
	}
	helper := "MapKeys"
	if !orderedBasic(mt.Key()) {
		if !types.Comparable(mt.Key()) {
			return nil, false
		}
		helper = "MapKeysAny"
	}
	if r.Key != nil && r.Tok != token.DEFINE {
		return nil, false
	}
	xsrc := string(src[off(r.X.Pos()):off(r.X.End())])
	key := "k__seam"
	if r.Key != nil {
		id, ok := r.Key.(*ast.Ident)
		if !ok {
			return nil, false
		}
		if id.Name != "_" {
			key = id.Name
		}
	}
	val := "_"
	if r.Value != nil {
		id, ok := r.Value.(*ast.Ident)
		if !ok {
			return nil, false
		}
		val = id.Name
	}
	hdr := fmt.Sprintf("for _, %s := range %s.%s(%s) {", key, rtName, helper, xsrc)
	pre := fmt.Sprintf(" %s, ok__seam := %s[%s]; if !ok__seam { continue }; _ = %s;", val, xsrc, key, key)
	return []edit{
		{off: off(r.For), end: off(r.Body.Lbrace) + 1, text: hdr + pre + " "},
	}, true
}
